"""C05 - core evaluation: call-by-value, left-to-right, lexical scope, exact arity."""
from ..common import *
from .. import dump, evalcorr, gen_prog
from ..evalprop import *

PID = "C05"
MANIFEST = {
    "text": "Theorems over the transcribed evaluator, for every form, environment, module, state and depth: what an evaluation ends in (value, signal or abort) is the same for every sufficient amount of the model's fuel (mutual induction over the six evaluator functions; so the exists-fuel statements about programs are not a choice among behaviours); a closure call evaluates the operator first, then the operands strictly left to right (each once, in the state left by the previous one, stopping at the first non-value), then the body in the closure's CAPTURED environment extended with the parameters (the caller's environment does not occur), in tail position; a non-function operator is reported before any operand is evaluated; parameter/argument pairing is exact for lists of ANY length (too few / too many / rest parameter) with the error details the code produces; the innermost binding shadows outer ones and globals. The model itself is the reference evaluator: it is tied to src/native/eval/mod.rs by generated programs (nested closures, shadowing, higher-order calls, rest parameters, arity and type errors in every operand position, side-effecting operands) run on the binary and in the model, compared on value/signal with full structure, output and the number of evaluator steps.",
    "note": "Trusted: Coq kernel; the hand transcription of eval_internal / pair_params_and_args / lookup (bound by the correspondence); the primitives' argument signatures are generated from the source. An adequacy theorem against a separately written big-step reference semantics is not proved; the one-step rules above characterise the transcription as that semantics construct by construct.",
    "technique": "Coq rules derived from the transcribed evaluator + induction on parameter lists + fuel-irrelevance by mutual induction over the evaluator + differential check of generated programs (values, signals, output, step counts) + exhaustive arity matrix",
}
TARGETS = ["Properties/C05.v", "Eval/PreludeState.v"]
IMPORTS = ["Eval.EvalRules", "Eval.SemProofs", "Eval.ModulesPersist", "Eval.FuelMono", "Properties.C05"]
THEOREMS = [
    ("C05_closure_application", "forall f st st' e env m d first rest st1 op mac restp params body cenv cmod st2 args newenv, poll st = (st', None) -> list_to_vec e = Some (first :: rest) -> special_form first = false -> eval_internal f st' first env m (d + 1)%N = (st1, ROk op) -> getv op = VFun mac restp params body cenv cmod -> eval_args f env m d st1 rest [] = (st2, inl args) -> pair_params (call_source e) params restp args cenv 0 (List.length args) = inl newenv -> eval_loop (S f) st e env m d = eval_loop f st2 body newenv cmod d"),
    ("C05_operands_left_to_right", "forall f env m d st x xs acc st1 v, eval_internal f st x env m (d + 1)%N = (st1, ROk v) -> eval_args f env m d st (x :: xs) acc = eval_args f env m d st1 xs (v :: acc)"),
    ("C05_first_error_wins", "forall f env m d st x xs acc st1 r, eval_internal f st x env m (d + 1)%N = (st1, r) -> (forall v, r <> ROk v) -> eval_args f env m d st (x :: xs) acc = (st1, inr r)"),
    ("C05_bad_operator_before_operands", 'forall f st st\' e env m d first rest st1 op, poll st = (st\', None) -> list_to_vec e = Some (first :: rest) -> special_form first = false -> eval_internal f st\' first env m (d + 1)%N = (st1, ROk op) -> match getv op with VFun _ _ _ _ _ _ | VNative _ => False | _ => True end -> eval_loop (S f) st e env m d = (st1, RSig (make_error "eval-bad-operator" (s "eval") [("symbol", first)]))'),
    ("C05_arity_exact", "forall src params args env i n, List.length params = List.length args -> pair_params src params false args env i n = inl (bind_all params args env)"),
    ("C05_arity_too_few", 'forall src params args env i n, (List.length args < List.length params)%nat -> pair_params src params false args env i n = inr (make_error "wrong-number-of-arguments" src [("expected", vnat (S (i + List.length args))); ("actual", vnat n)])'),
    ("C05_arity_too_many", 'forall src params args env i n, (List.length params < List.length args)%nat -> pair_params src params false args env i n = inr (make_error "wrong-number-of-arguments" src [("expected", vnat (i + List.length params)); ("actual", vnat n)])'),
    ("C05_rest_parameter", "forall src ps r args env i n, (List.length ps <= List.length args)%nat -> pair_params src (ps ++ [r]) true args env i n = inl (bind r (vec_to_list (skipn (List.length ps) args)) (bind_all ps (firstn (List.length ps) args) env))"),
    ("C05_inner_binding_shadows", "forall k v env, env_lookup (bind (VSym k) v env) k = LFound v"),
    ("C05_other_bindings_untouched", "forall k k' v env, sym_eqb k' k = false -> env_lookup (bind (VSym k') v env) k = env_lookup env k"),
    ("C05_local_before_global", "forall f st st' e env m d k v, poll st = (st', None) -> list_to_vec e = None -> getv e = VSym k -> env_lookup env k = LFound v -> eval_loop (S f) st e env m d = (st', ROk v)"),
    ("C05_result_independent_of_fuel", "forall f1 f2 st e env m d st1 r1 st2 r2, cur_ok st -> eval_internal f1 st e env m d = (st1, r1) -> eval_internal f2 st e env m d = (st2, r2) -> r1 <> RFuel -> r2 <> RFuel -> st1 = st2 /\\ r1 = r2"),
    ("C05_more_fuel_same_result", "forall f f' st e env m d st' r, (f <= f')%nat -> cur_ok st -> eval_internal f st e env m d = (st', r) -> r <> RFuel -> eval_internal f' st e env m d = (st', r)"),
]

FIXED = [
    "((lambda (x) ((lambda (x) x) 2)) 1)", "((lambda (x) ((lambda (y) x) 2)) 1)", "(define 'x 10 \"\") ((lambda (x) x) 1) x",
    "(define 'y 10 \"\") (define 'f (lambda () y) \"\") ((lambda (y) (f)) 1)",                   # lexical, not dynamic
    "(define 'mk (lambda (n) (lambda (m) (add n m))) \"\") ((mk 1) 2) ((lambda (n) ((mk 10) 5)) 99)",
    "((lambda (a b) (list a b)) (output-file '*stdout* \"1\") (output-file '*stdout* \"2\"))",         # operand order
    "((output-file '*stdout* \"op\") (output-file '*stdout* \"arg\"))",                             # operator first
    "(5 (output-file '*stdout* \"never\"))", "(5 (car 1))", "((car 1) (output-file '*stdout* \"never\"))",
    "(cons (car 1) (output-file '*stdout* \"never\"))", "(cons (output-file '*stdout* \"first\") (car 1))",
    "((lambda (x y) x) 1)", "((lambda (x y) x) 1 2 3)", "((lambda (x & r) r) 1)", "((lambda (x & r) r))", "((lambda (& r) r))", "((lambda (& r) r) 1 2 3)",
    "((lambda (cons) (cons 1 2)) list)", "((lambda (x x) x) 1 2)", "(if () 1 2)", "(if 0 1 2)", "(if (car '(())) 1 2)", "(quote (add 1 2))", "(quote)", "(if 1 2)",
    "((lambda (f) (f (f 1))) (lambda (x) (add x 1)))", "(((lambda (x) (lambda (y) (lambda (z) (list x y z)))) 1) 2)", "(= 'a 'a)", "(< 1 2 3)",
    # = on function objects: never equal, not even to themselves, also inside compared lists (equality is on data)
    "((lambda (f) (= f f)) (lambda (x) x))", "(= car car)", "((lambda (f) (= (list 1 f) (list 1 f))) cons)", "(= (lambda (x) x) (lambda (x) x))",
    "((lambda (f g) (list (= f g) (= f f) (= g g) (= (list f) (list f)) (= (list 1 2) (list 1 2)))) (lambda (x) x) (lambda (x) x))",
    "((lambda (m) (= m m)) (macro (x) x))", "((lambda (t) (list (= t t) (= (list t 1) (list t 1)))) (trap 1 2))",
]

def run(tier, seed):
    rep = Report(PID, tier, seed)
    standard_proof_phase(rep, TARGETS, IMPORTS, THEOREMS)
    rng = Rng(seed, 5)
    n = 700 if tier == "quick" else 20000
    progs, stats = list(FIXED), {}
    feats = gen_prog.CORE | {"effects"}
    for i in range(n):
        p, st = gen_prog.gen_program(rng, feats, max_nodes=rng.range(8, 40 if tier == "quick" else 120), depth=rng.range(2, 6), nforms=rng.range(1, 2))
        progs.append(p)
        for k, v in st.items():
            stats[k] = stats.get(k, 0) + v
    # exact arity, systematically: closures and macros with 0..3 parameters (with and without a rest parameter),
    # called directly, through a variable and as a returned closure, with 0..4 arguments
    arity = []
    for np_ in range(0, 4):
        params = ["a", "b", "c"][:np_]
        for restp in (False, True):
            plist = " ".join(params + (["&", "r"] if restp else []))
            body = "(list " + " ".join(params + (["r"] if restp else [])) + ")" if (params or restp) else "'none"
            for na in range(0, 5):
                args = " ".join(str(k + 1) for k in range(na))
                ok = (na >= np_) if restp else (na == np_)
                for kind in ("lambda", "macro"):
                    fn = f"({kind} ({plist}) {body})"
                    forms = [f"({fn} {args})".replace(" )", ")")]
                    if kind == "lambda":
                        forms += [f"((lambda (f) (f {args})) {fn})".replace(" )", ")"), f"(((lambda (x) {fn}) 0) {args})".replace(" )", ")")]
                    for form in forms:
                        arity.append((form, ok))
    progs += [f for f, _ in arity]
    sets = [ProgramSet("core", progs, env="", shard_size=80)]
    run_sets(rep, sets)
    crashes_and_hangs(rep, sets)
    if not rep.violations:
        # a disagreement with the reference evaluator (the model) IS the failing input for this property
        ps = sets[0]
        for b in sorted(ps.bad, key=lambda i: len(progs[i]))[:3]:
            rep.violation("the implementation differs from the reference evaluator on " + progs[b], {"program": progs[b], "env": "", "implementation": ps.answers[b][:500], "reference": evalcorr.model_outcome(progs[b], env="")[:1500]})
    # the arity matrix against the property itself: too few or too many arguments signal wrong-number-of-arguments, the right number does not
    ps = sets[0]
    base = len(progs) - len(arity)
    wrong_arity = 0
    for j, (form, ok) in enumerate(arity):
        r = ps.parsed[base + j]
        st, d = last_result(r)
        is_arity_signal = st == "sig" and "119.114.111.110.103.45.110.117.109.98.101.114.45.111.102.45.97.114.103.117.109.101.110.116.115" in (d or "")
        if (ok and is_arity_signal) or (not ok and not is_arity_signal):
            wrong_arity += 1
            if wrong_arity <= 3:
                rep.violation(f"{form}: {'a call with the right number of arguments signals wrong-number-of-arguments' if ok else 'a call with the wrong number of arguments does not signal wrong-number-of-arguments'}",
                              {"program": form, "env": "", "observed": ps.answers[base + j][:300]})
    rep.coverage["arity_matrix"] = len(arity)
    rep.nontrivial = len(set(p for p in progs if "(lambda" in p))
    rep.samples = progs[len(FIXED):len(FIXED) + 3]
    rep.coverage.update({"outcomes": outcome_kinds(sets), "construct_counts": stats, "exhaustive": False})
    return rep.finish("make -C coq Properties/C05.vo && coqc <pinned statements>", TRUSTED_BASE_COMMON + ["axioms: none"],
                      "fixed programs naming the property's clauses (lexical vs dynamic scope, shadowing, operand order via output, operator first, arity, rest parameters) + grammar-generated programs (70% well-formed, 25% one, 5% three ill-typed/ill-aritied positions) in an interpreter with the natives only; non-trivial = evaluates at least one lambda")

def replay(path):
    return generic_replay(path, env="")
