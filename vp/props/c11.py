"""C11 - the reader conforms to the grammar on every string, with exact positions."""
import itertools, re, json
from ..common import *
from .. import dump

PID = "C11"
MANIFEST = {
    "text": "Theorems over the transcribed tokenizer and parser, for EVERY text, start position and source: no Rust panic site is reachable (the unreachable!() after an atom ending is proved unreachable from the loop invariant), every token or error consumes at least one character (so the parser's token loop is total), every blank text of any length reads as `nothing`; POSITIONS ARE EXACT for every text: the rest returned with a token, an error or a datum is a suffix of the input and the position returned is the start position advanced over exactly the consumed characters (errors: at the offending character, 1-based column); every printed datum of the readable domain is accepted and reads back as itself (theorem C10_datum_round_trip); plus kernel-computed witnesses of the places where the unchanged reader departs from the grammar. The transcription is tied to src/native/read/mod.rs by EXHAUSTIVE comparison of the complete result of `read` (status, datum with the metadata name/line/column of every atom and string, rest, line, column, error location and message) on all strings up to length 4 (quick) / 5 (thorough) over a 14-character delimiter-rich alphabet, random longer strings, a grid of start positions; and the implementation is compared with an independent implementation of the grammar of DESIGN.md 5.C11 (status, datum, shortest prefix, rest, positions).",
    "note": "The grammar-level statements (shortest prefix, incomplete iff extendable, error stable) are decided by the independent reference reader on the enumerated/random strings, not yet by theorems. Grapheme clusters of more than one code point are not modelled (the alphabet has none). Known deviations of the unchanged reader from the grammar are listed as open findings by input class. Trusted: Coq kernel; transcription (exhaustive agreement); char::is_whitespace / is_ascii_digit tables (complete sweep each run).",
    "technique": "Coq totality and exact-position proofs of the transcribed reader (induction over the text) + exhaustive small-scope differential check + independent grammar reference",
}
TARGETS = ["Properties/C11.v", "Eval/Run.v"]
IMPORTS = ["Data.Reader", "Data.ReaderProofs", "Data.PositionProofs", "Properties.C11"]
THEOREMS = [
    ("C11_tokenizer_total", "forall inp inv st buf bl cur, tinv inp inv st buf -> not_panic (tok inp inv st buf bl cur) /\\ strictly_shorter (tok inp inv st buf bl cur) inp"),
    ("C11_read_never_panics", "forall src inp inv line col, rd_not_panic (read_text src inp inv line col)"),
    ("C11_blank_is_nothing", "forall src t line col, blank_from false t = true -> read_text src t false line col = inr ENothing"),
    ("C11_token_positions_exact", "forall inp inv st buf bl cur t, tok inp inv st buf bl cur = Some (inl t) -> exists consumed, inp = consumed ++ trest t /\\ tcur t = advance cur consumed /\\ consumed <> []"),
    ("C11_error_positions_exact", "forall inp inv st buf bl cur m l rest a b, tok inp inv st buf bl cur = Some (inr (EError m l rest a b)) -> exists consumed, inp = consumed ++ rest /\\ l = advance cur consumed /\\ consumed <> [] /\\ (let '(Loc x y) := l in a = x /\\ b = y + 1)"),
    ("C11_read_positions_exact", "forall src inp inv line col v rest l, read_text src inp inv line col = inl (v, rest, l) -> exists consumed, inp = consumed ++ rest /\\ l = advance (Loc line (col - 1)) consumed /\\ consumed <> []"),
    ("C11_known_deviations", """rd_status (read_text SrcStdin (s "'") false 1 1) = "nothing" /\\ rd_status (read_text SrcStdin (s "%") false 1 1) = "nothing" /\\ rd_status (read_text SrcStdin [c_dq] false 1 1) = "nothing" /\\ match read_text SrcStdin (s "''a") false 1 1, read_text SrcStdin (s "'a") false 1 1 with | inl (v1, _, _), inl (v2, _, _) => strip v1 = strip v2 | _, _ => False end /\\ match read_text SrcStdin (s "(a ')") false 1 1, read_text SrcStdin (s "'(a)") false 1 1 with | inl (v1, _, _), inl (v2, _, _) => strip v1 = strip v2 | _, _ => False end /\\ match read_text SrcStdin (s "% a") false 1 1, read_text SrcStdin (s "a") false 1 1 with | inl (v1, _, _), inl (v2, _, _) => strip v1 = strip v2 | _, _ => False end"""),
]

ALPHABET = ["(", ")", "'", '"', "\\", "%", ";", ",", " ", "\n", "a", "1", "-", "+"]
WS = set([9, 10, 11, 12, 13, 32, 133, 160, 5760, 8232, 8233, 8239, 8287, 12288] + list(range(8192, 8203)))

def is_ws(c): return ord(c) in WS
def is_delim(c): return c in "();\"'," or is_ws(c)

# ---------------------------------------------------------------------------
# independent reference reader: the grammar of DESIGN.md section 5, C11
# ---------------------------------------------------------------------------
class Incomplete(Exception): pass
class SyntaxErr(Exception):
    def __init__(self, pos): self.pos = pos

class Ref:
    def __init__(self, text, line, col):
        self.t, self.line0, self.col0 = text, line, col
    def position(self, i):
        line, col = self.line0, self.col0
        for c in self.t[:i]:
            if c == "\n": line, col = line + 1, 1
            else: col += 1
        return line, col
    def skip_blank(self, i):
        t = self.t
        while i < len(t):
            if is_ws(t[i]) or t[i] == ",": i += 1
            elif t[i] == ";":
                while i < len(t) and t[i] != "\n": i += 1
            else: break
        return i
    def form(self, i):
        """returns (datum, next index); datum trees: ('num',z) ('chr',cp) ('sym',name) ('str',text) ('list',[..]) ; atoms carry their start index"""
        t = self.t
        i = self.skip_blank(i)
        if i >= len(t): raise Incomplete()
        c = t[i]
        if c == "'":
            d, j = self.form(i + 1)
            return ("list", [("sym", "quote", None), d], None), j
        if c == "(":
            items, j = [], i + 1
            while True:
                j = self.skip_blank(j)
                if j >= len(t): raise Incomplete()
                if t[j] == ")": return ("list", items, None), j + 1
                d, j = self.form(j)
                items.append(d)
        if c == ")": raise SyntaxErr(i)
        if c == '"':
            out, j = [], i + 1
            while True:
                if j >= len(t): raise Incomplete()
                if t[j] == '"': return ("str", "".join(out), i), j + 1
                if t[j] == "\\":
                    if j + 1 >= len(t): raise Incomplete()
                    e = t[j + 1]
                    if e not in 'nrt\\"': raise SyntaxErr(j + 1)
                    out.append({"n": "\n", "r": "\r", "t": "\t", "\\": "\\", '"': '"'}[e]); j += 2
                else:
                    out.append(t[j]); j += 1
        j = i
        while j < len(t) and not is_delim(t[j]): j += 1
        run = t[i:j]
        if run[0] == "%":
            body = run[1:]
            if body == "":
                if j >= len(t): raise Incomplete()
                raise SyntaxErr(i)
            esc = {"\\n": 10, "\\t": 9, "\\s": 32, "\\r": 13, "\\\\": 92}
            if body in esc: return ("chr", esc[body], i), j
            if len(body) == 1: return ("chr", ord(body), i), j
            raise SyntaxErr(i)
        if re.match(r"[+-]*[0-9]", run):
            if re.fullmatch(r"[+-]?[0-9]+", run) and -2**63 <= int(run) < 2**63: return ("num", int(run), i), j
            raise SyntaxErr(i)
        if "\\" in run: raise SyntaxErr(i)
        return ("sym", run, i), j

def ref_read(text, line, col):
    r = Ref(text, line, col)
    if r.skip_blank(0) >= len(text):
        return {"status": "nothing"}
    try:
        d, j = r.form(0)
    except Incomplete:
        return {"status": "incomplete"}
    except SyntaxErr as e:
        return {"status": "error", "at": r.position(e.pos)}
    return {"status": "ok", "datum": d, "rest": text[j:], "restpos": r.position(j), "ref": r}

def ref_tree(d, r):
    """reference datum -> (stripped tree comparable with dump.strip_meta, list of (kind, line, col) of atoms in order)"""
    k = d[0]
    if k == "num": return ("num", d[1]), [r.position(d[2])] if d[2] is not None else []
    if k == "chr": return ("chr", d[1]), [r.position(d[2])]
    if k == "sym": return ("sym", d[1]), ([r.position(d[2])] if d[2] is not None else [])
    if k == "str":
        t = ("nil",)
        for ch in reversed(d[1]): t = ("cons", ("chr", ord(ch)), t)
        return ("cons", ("sym", "list"), t), [r.position(d[2])]
    items, pos = [], []
    for x in d[1]:
        a, p = ref_tree(x, r); items.append(a); pos += p
    t = ("nil",)
    for a in reversed(items): t = ("cons", a, t)
    return t, pos

def impl_positions(tree):
    out = []
    def walk(t):
        if t[0] == "meta":
            out.append((t[3], t[4]))     # metadata line / column of the first character (1-based)
            return
        if t[0] == "cons": walk(t[1]); walk(t[2])
    walk(tree)
    return out

def classify(text, ref, impl_status, impl):
    """known classes of deviation (open findings), by input; None = not a known deviation"""
    body = text
    if ref["status"] == "incomplete" and impl_status == "nothing":
        core = re.sub(r";[^\n]*", "", body)
        core = "".join(c for c in core if not (is_ws(c) or c == ","))
        if re.fullmatch(r"'*(%|\"|\"\\)?", core) or re.fullmatch(r"'+", core):
            return "dangling-prefix-nothing"
    if re.search(r"(^|[\s,();\"'])[+-][+\-%]*%[+\-%]*[0-9]", body): return "sign-percent-number"
    if re.search(r"'[\s,]*'", body): return "nested-quote"
    if re.search(r"'[\s,]*\)", body): return "quote-before-close"
    if re.search(r"'[\s,]*;", body) or re.search(r"'[\s,]*$", body): return "dangling-quote"
    if re.search(r"%([\s,();\"']|$)", body): return "percent-before-delimiter"
    if re.search(r"\"(?:[^\"\\]|\\.)*\\?$", body) and impl_status in ("nothing", "incomplete") and ref["status"] in ("nothing", "incomplete"): return "dangling-prefix-nothing"
    return None

def run(tier, seed):
    rep = Report(PID, tier, seed)
    standard_proof_phase(rep, TARGETS, IMPORTS, THEOREMS)
    rng = Rng(seed, 11)
    known = load_known()
    open_classes = {k["class"]: k for k in known["open"] if k["property"] == PID}
    # character classes: complete sweep of the implementation against the model's tables
    cc = run_driver_cases(["charclass"], timeout=120.0)[0]
    m = re.match(r"ws ([0-9.]+) digit ([0-9.]+)", cc)
    ws = sorted(int(x) for x in m.group(1).split(".")) if m else []
    if ws != sorted(WS) or not m or m.group(2) != ".".join(str(x) for x in range(48, 58)):
        rep.broken.append("char::is_whitespace / is_ascii_digit differ from the model's tables (Base/Chars.v): " + cc[:200])
    rep.coverage["charclass_sweep"] = "all 0x110000 code points"
    maxlen = 4 if tier == "quick" else 5
    cases = []
    for n in range(0, maxlen + 1):
        for combo in itertools.product(ALPHABET, repeat=n):
            cases.append(("".join(combo), 1, 1))
    exhaustive = len(cases)
    pool = ALPHABET + ["b", "2", "0", "\t", "é", "9223372036854775807", "-9223372036854775808", "9223372036854775808", "%\\n", "\\n", "\\\"", "list", "quote"]
    for i in range(1500 if tier == "quick" else 30000):
        n = rng.range(5, 24)
        t = "".join(rng.choice(pool) for _ in range(n))
        cases.append((t, rng.choice([1, 1, 2, 7, 1000000]), rng.choice([1, 1, 3, 80, 4000000000])))
    lines = [f"read {l} {c} {enc(t)}" for t, l, c in cases]
    answers = run_driver_cases(lines, timeout=30.0)
    rep.evaluations = len(cases)
    terms, idx = [], []
    statuses = {}
    deviations = {}
    violations = 0
    for i, ((t, l, c), a) in enumerate(zip(cases, answers)):
        if not a.startswith("ok "):
            rep.violation(f"read did not return a result on {t!r}: {a[:120]}", {"text": t, "line": l, "column": c, "observed": a[:300]})
            continue
        tree = dump.parse_dump(a[3:])
        terms.append(f"({coq_text(t)}, ({l})%Z, ({c})%Z, {dump.to_coq(tree)})")
        idx.append(i)
        items = dump.list_items(tree)
        pl = {dump.strip_meta(items[k])[1]: items[k + 1] for k in range(0, len(items), 2)}
        st = dump.strip_meta(pl["status"])[1]
        statuses[st] = statuses.get(st, 0) + 1
        ref = ref_read(t, l, c)
        problem = None
        if ref["status"] != st:
            problem = f"status {st}, the grammar says {ref['status']}"
        elif st == "ok":
            rt, rpos = ref_tree(ref["datum"], ref["ref"])
            if dump.strip_meta(pl["result"]) != rt:
                problem = "the datum differs from what the shortest form prefix denotes"
            elif dump.text_of(pl["rest"]) != ref["rest"]:
                problem = f"rest {dump.text_of(pl['rest'])!r}, expected {ref['rest']!r}"
            elif (dump.strip_meta(pl["line"])[1], dump.strip_meta(pl["column"])[1]) != ref["restpos"]:
                problem = f"rest position {(dump.strip_meta(pl['line'])[1], dump.strip_meta(pl['column'])[1])}, expected {ref['restpos']}"
            elif impl_positions(pl["result"]) != rpos:
                problem = f"atom positions {impl_positions(pl['result'])}, expected {rpos}"
        elif st == "error":
            loc = {dump.strip_meta(x)[1]: y for x, y in zip(dump.list_items(dump.list_items(pl["error"])[1])[0::2], dump.list_items(dump.list_items(pl["error"])[1])[1::2])}
            at = (dump.strip_meta(loc["line"])[1], dump.strip_meta(loc["column"])[1])
            if at != ref["at"]:
                problem = f"error located at {at}, the offending token starts at {ref['at']}"
        if problem:
            cls = "error-position" if problem.startswith("error located") else classify(t, ref, st, pl)
            if cls and cls in open_classes:
                deviations[cls] = deviations.get(cls, 0) + 1
            else:
                violations += 1
                if violations <= 5:
                    rep.violation(f"read {t!r} (start {l}:{c}): {problem}", {"text": t, "line": l, "column": c, "observed": a[:400], "class": cls})
    for cls, n in sorted(deviations.items()):
        rep.known_lines.append(f"KNOWN-FINDING: property={PID} {open_classes[cls]['what']} [{n} inputs of this class in this run]")
    pre = ("From PL Require Import Eval.Run.\nFrom Coq Require Import String.\nLocal Open Scope string_scope.\nLocal Open Scope list_scope.\nLocal Open Scope N_scope.\n"
           "Definition chk (c : text * Z * Z * val) : bool := let '(t, l, k, expected) := c in\n"
           "  match read_result (string_to_list t) (VSym (Named (s \"stdin\"))) l k with\n"
           "  | ROk v => match vmatch 100000 [] v expected with Some _ => true | None => false end\n"
           "  | _ => false end.\n")
    bad = coq_check_shards("c11", pre, terms, "chk", shard_size=2500, case_type="text * Z * Z * val", timeout=1500)
    if bad and not rep.violations:
        b = min(bad, key=lambda k: len(cases[idx[k]][0]))
        rep.broken.append(f"correspondence reader model/implementation: {len(bad)} texts; shortest {cases[idx[b]][0]!r} at {cases[idx[b]][1:]} -> {answers[idx[b]][:300]}")
    rep.nontrivial = len(set(t for t, _, _ in cases if any(ch in t for ch in "()'\"%")))
    rep.samples = [repr(cases[k][0]) + " -> " + answers[k][:120] for k in (exhaustive - 7, exhaustive + 1)]
    rep.coverage.update({"exhaustive_part": f"all {exhaustive} strings of length <= {maxlen} over {ALPHABET!r}", "statuses": statuses, "known_deviation_classes": deviations, "exhaustive": False})
    return rep.finish("make -C coq Properties/C11.vo && coqc <pinned statements>", TRUSTED_BASE_COMMON + ["axioms: none"],
                      f"every string of length <= {maxlen} over the 14-character alphabet (start 1:1) + random strings of 5-24 tokens from a larger pool at assorted start positions; each compared (i) exactly with the Coq reader incl. metadata and messages, (ii) with the independent grammar reference; non-trivial = contains a delimiter, quote, string or character marker")

def replay(path):
    r = json.load(open(path)); print(json.dumps(r, indent=1)[:3000])
    rp = r.get("replay", {})
    if "text" in rp:
        print("implementation now answers:", run_driver_cases([f"read {rp.get('line', 1)} {rp.get('column', 1)} {enc(rp['text'])}"])[0][:600])
    return 0
