"""C15 - globals are constants; define/undefine/load leave module state consistent."""
from ..common import *
from .. import dump, evalcorr
from ..evalprop import *

PID = "C15"
MANIFEST = {
    "text": "Theorems over the module-table model and the transcribed define/undefine/load-all: define on an existing name of the current module signals and leaves the state unchanged; a new name is defined in the current module only; undefine removes exactly that name from the current module (other names, other modules, the current module untouched) and the name can be defined again; after load-all - for EVERY input text, source, state and outcome (success, read error, incomplete input, signal or abort at any form, nested loads) - the current module is the one before the load. Tied to the code by operation sequences with fault injection (loads failing at form k by each failure kind, nested) run on the binary and in the model.",
    "note": "Trusted: Coq kernel; hand transcription of globals/mod.rs, Memory's module API and load_all (bound by the correspondence); HashMap semantics of insert/remove.",
    "technique": "Coq proofs over the module-table model and the transcribed natives + differential check of operation sequences with fault injection",
}
TARGETS = ["Properties/C15.v", "Eval/PreludeState.v"]
IMPORTS = ["Eval.EvalRules", "Eval.SemProofs", "Properties.C15"]
THEOREMS = [
    ("C15_define_never_overwrites", 'forall st n v doc d x dtext, getv n = VSym x -> list_to_string doc = Some dtext -> is_global_defined st (sym_name x) = true -> simple_native st (s "define") [n; v; doc] d = Some (st, RSig (make_error "already-defined" (s "define") [("symbol", n)]))'),
    ("C15_define_new_name", 'forall st n v doc d x dtext, getv n = VSym x -> list_to_string doc = Some dtext -> is_global_defined st (sym_name x) = false -> exists value, simple_native st (s "define") [n; v; doc] d = Some (define_global st (sym_name x) value, ROk sym_ok) /\\ getv value = getv v'),
    ("C15_define_global_defines", "forall st name v, assoc name (current_defs (define_global st name v)) = Some v /\\ cur (define_global st name v) = cur st"),
    ("C15_undefine_exact", "forall st name, assoc name (current_defs (undefine_global st name)) = None /\\ (forall other, other <> name -> assoc other (current_defs (undefine_global st name)) = assoc other (current_defs st)) /\\ (forall mn, mn <> cur st -> find_module mn (mods (undefine_global st name)) = find_module mn (mods st)) /\\ cur (undefine_global st name) = cur st"),
    ("C15_define_again_after_undefine", "forall st name, is_global_defined (undefine_global st name) name = false"),
    ("C15_load_restores_current", 'forall f st input source env d st\' r, call_native (S f) st (s "load-all") [input; source] env d = (st\', r) -> (forall site, r <> RPanic site) -> cur st\' = cur st'),
]

def lisp_string(t):
    return '"' + t.replace("\\", "\\\\").replace('"', '\\"') + '"'

FAILS = {"ok": "", "readerr": ")", "incomplete": "(list 1", "signal": "(signal 'boom)", "abort": "(abort)", "unbound": "nope", "badchar": "%abc"}

def load_text(rng, depth, fail_kind, fail_at, nforms, modname):
    forms = []
    for k in range(nforms):
        if k == fail_at:
            forms.append(FAILS[fail_kind])
        else:
            c = rng.below(4)
            if c == 0: forms.append(f"(define 'v{k}{modname} {k} \"\")")
            elif c == 1: forms.append("(add 1 2)")
            elif c == 2 and depth > 0:
                inner_fail = rng.choice(list(FAILS))
                forms.append("(eval (trap (load-all " + lisp_string(load_text(rng, depth - 1, inner_fail, rng.below(3), 3, modname + "i")) + " " + lisp_string(modname + "i") + ") 'inner-caught))")
            else: forms.append(f"(define 'cm{k}{modname} (get-current-module) \"\")")
    return " ".join(forms)

def run(tier, seed):
    rep = Report(PID, tier, seed)
    standard_proof_phase(rep, TARGETS, IMPORTS, THEOREMS)
    rng = Rng(seed, 15)
    progs = []
    # define / undefine / lookup sequences
    n = 120 if tier == "quick" else 2500
    names = ["a", "b", "c"]
    op_lists = []
    for i in range(n):
        ops = []
        for _ in range(rng.range(3, 10)):
            nm = rng.choice(names)
            k = rng.below(6)
            if k < 2: ops.append(f"(eval (trap (define '{nm} {rng.range(0, 9)} \"d\") (list 'sig *trapped-signal*)))")
            elif k == 2: ops.append(f"(undefine '{nm})")
            elif k == 3: ops.append(f"(eval (trap {nm} 'unbound))")
            elif k == 4: ops.append(f"(whereis '{nm})")
            else: ops.append(f"(export '({nm}))")
        progs.append(" ".join(ops))
        op_lists.append(ops)
    # loads with fault injection; the current module is observed afterwards
    loads = []
    m = 150 if tier == "quick" else 3000
    for i in range(m):
        kind = rng.choice(list(FAILS))
        nforms = rng.range(1, 4)
        text = load_text(rng, rng.below(3), kind, rng.below(nforms), nforms, "m")
        src = rng.choice([lisp_string("modm"), "'stdin", lisp_string("default")])
        loads.append(f"(define 'before (get-current-module) \"\") (eval (trap (load-all {lisp_string(text)} {src}) (list 'caught (get-property-safe 'kind *trapped-signal*)))) (list before (get-current-module)) (eval (trap (from-module 'v0m 'modm) 'none))")
    # define / undefine in SEVERAL modules: what one module does to a name must not touch the other modules' definitions
    mm_progs, mm_refs = [], []
    for i in range(60 if tier == "quick" else 1200):
        defined = {"default": set(), "modA": set(), "modB": set()}
        segs = []
        for _ in range(rng.range(2, 6)):
            mod = rng.choice(["default", "modA", "modB"])
            ops = []
            if mod != "default":
                defined[mod] = set()          # loading a module again starts it afresh (define_module)
            for _ in range(rng.range(1, 4)):
                nm = rng.choice(names)
                if rng.below(3) < 2:
                    if not any(nm in v for v in defined.values()):       # (a name visible from another module cannot be defined again)
                        ops.append(f"(define '{nm} {rng.range(0, 9)} \"\")"); defined[mod].add(nm)
                else:
                    ops.append(f"(undefine '{nm})"); defined[mod].discard(nm)
            if not ops:
                ops.append("(add 1 2)")
            segs.append(" ".join(ops) if mod == "default" else f"(load-all {lisp_string(' '.join(ops))} {lisp_string(mod)})")
        segs.append("(list " + " ".join(f"(whereis '{nm})" for nm in names) + ")")
        mm_progs.append(" ".join(segs))
        mm_refs.append([sorted(m for m in defined if nm in defined[m]) for nm in names])
    sets = [ProgramSet("defs", progs), ProgramSet("loads", loads), ProgramSet("modules", mm_progs)]
    run_sets(rep, sets)
    crashes_and_hangs(rep, sets)
    for prog, ref, r, ans in zip(mm_progs, mm_refs, sets[2].parsed, sets[2].answers):
        st, d = last_result(r)
        if st != "ok":
            continue
        try:
            items = dump.list_items(dump.parse_dump(d))
            got = [sorted(dump.show(x) for x in (dump.list_items(it) or [])) for it in items]
        except dump.Truncated:
            continue
        if got != ref:
            rep.violation(f"after define/undefine in several modules whereis answers {got} for {names}, the definitions made are in {ref}: {prog[:200]}",
                          {"program": prog, "expected": str(ref), "observed": ans[:400]})
            if len(rep.violations) >= 3:
                break
    # monitor on the binary, against the property's own reference (a set of defined names; export lists play no role):
    # define on a defined name signals already-defined and changes nothing, on a free name it answers ok; undefine frees the name
    import re as _re
    redefined = 0
    for ops, r, prog, ans in zip(op_lists, sets[0].parsed, progs, sets[0].answers):
        if "special" in r or len(r["results"]) != len(ops):
            continue
        defined = {}
        for op, (st, d) in zip(ops, r["results"]):
            md = _re.match(r"\(eval \(trap \(define '(\w+) (\d+)", op)
            mu = _re.match(r"\(undefine '(\w+)\)", op)
            ml = _re.match(r"\(eval \(trap (\w+) 'unbound\)\)", op)
            try:
                shown = dump.show(dump.parse_dump(d)) if st == "ok" else st
            except dump.Truncated:
                continue
            if md:
                nm, val = md.group(1), md.group(2)
                if nm in defined:
                    if "already-defined" not in shown:
                        redefined += 1
                        if redefined <= 2:
                            rep.violation(f"define on the already defined name {nm} answered {shown} instead of signalling already-defined: {prog}", {"program": prog, "observed": ans[:400]})
                else:
                    if shown != "ok":
                        rep.violation(f"define on the free name {nm} answered {shown}: {prog}", {"program": prog, "observed": ans[:400]})
                    defined[nm] = val
            elif mu:
                defined.pop(mu.group(1), None)
            elif ml and ml.group(1) in defined and shown not in (defined[ml.group(1)], "unbound"):
                rep.violation(f"the constant {ml.group(1)} was defined as {defined[ml.group(1)]} but evaluates to {shown}: {prog}", {"program": prog, "observed": ans[:400]})
    # monitor on the binary: current module after the load = current module before
    not_restored = 0
    for i, r in enumerate(sets[1].parsed):
        if "special" in r or len(r["results"]) < 3:
            continue
        st, d = r["results"][2]
        if st != "ok":
            continue
        try:
            items = dump.list_items(dump.parse_dump(d))
        except dump.Truncated:
            continue
        if dump.strip_meta(items[0]) != dump.strip_meta(items[1]):
            not_restored += 1
            if not_restored <= 2:
                rep.violation("the current module after load-all is not the one before: " + loads[i][:200], {"program": loads[i], "observed": sets[1].answers[i][:400]})
    if not rep.violations:
        report_disagreements(rep, sets, "globals / load-all")
    rep.nontrivial = len(set(progs)) + len(set(loads))
    rep.samples = [progs[0], loads[0][:300]]
    rep.coverage.update({"outcomes": outcome_kinds(sets), "fault_kinds": list(FAILS), "exhaustive": False})
    return rep.finish("make -C coq Properties/C15.vo && coqc <pinned statements>", TRUSTED_BASE_COMMON + ["axioms: none"],
                      "random sequences of define/undefine/lookup/whereis/export over 3 names; define/undefine sequences spread over three modules (with reloads) checked against a per-module reference through whereis; loads whose k-th form fails by each of " + ", ".join(FAILS) + " (nested up to 2), into a named module, the default module or no module; non-trivial = distinct sequence")

def replay(path):
    return generic_replay(path)
