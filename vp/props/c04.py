"""C04 - symbol identity."""
from ..common import *
from .heapcommon import *

PID = "C04"
MANIFEST = {
    "text": "Theorems over the transcribed heap: in EVERY state reachable by ANY history (interning, generating unique symbols, dropping, collecting - which removes exactly the entries of reclaimed symbols -, interning again, names alive only through a cons/closure/global) the symbol table is exact: every entry designates the used symbol cell of that name and every used named-symbol cell is the entry of its name; hence two named symbols in use are the same cell iff they have the same name, and a generated symbol (identified by its cell) is equal only to itself. Tied to the code by exact snapshot agreement incl. the table after every operation on histories biased to intern/drop/collect/re-intern over 6 names, a table monitor on the real snapshots, and symbol equality through = and the evaluator under forced collections, including a generated symbol against an interned symbol with the same spelling.",
    "note": "Trusted: Coq kernel; transcription (snapshot agreement); the value-level evaluator model compares Unique ids / names (refinement to addresses is by the invariant: distinct used cells have distinct boxes).",
    "technique": "Coq invariant proof over histories (symbol table exactness) + snapshot-exact differential check + table monitor + equality probes under forced collections",
}
TARGETS = ["Properties/C04.v", "Heap/Snapshot.v", "Eval/PreludeState.v"]
IMPORTS = ["Heap.HeapModel", "Heap.MarkProofs", "Heap.CollectProofs", "Heap.HeapInv", "Heap.SymProofs", "Heap.StepInv", "Heap.HistoryProofs", "Properties.C04"]
THEOREMS = [
    ("C04_table_exact_in_every_reachable_state", "forall p n ops g, run_ops p (init_gstate n) ops = Some g -> symok (gheap g)"),
    ("C04_same_name_same_symbol", "forall h c1 c2, wf h -> symok h -> In c1 (used h) -> In c2 (used h) -> ckind c1 = KSym -> ckind c2 = KSym -> (box c1 = box c2 <-> payload c1 = payload c2)"),
    ("C04_unique_symbol_equal_only_to_itself", "forall h c1 c2, wf h -> In c1 (used h) -> In c2 (used h) -> box c1 = box c2 -> c1 = c2"),
    ("C04_collect_keeps_table_exact", "forall p h h', wf h -> symok h -> collect p h = Some h' -> symok h'"),
    ("C04_intern_registers", "forall p h h' L name a, inv h L -> symok h -> assoc_t name (symtab h) = None -> allocate p h KSym name [] = Some (h', a) -> symok (Heap (cells h') (ff h') ((name, a) :: symtab h') (next h'))"),
]

SYM_PROGRAMS = [
    "(list (= 'a 'a) (= 'a 'b) (= (car '(foo)) 'foo))",
    "((lambda (g h) (list (= g g) (= g h) (= h h) (= g 'g))) (gensym) (gensym))",
    "((lambda (g) (list (= g (read-simple (print g))) (= (list 1 g) (list 1 (read-simple (print g)))) (= g g))) (gensym))",
    "(define 'keep (cons 'kept-only-here nil) \"\") (length (range 3000)) (= (car keep) 'kept-only-here)",
    "(define 'gs (list (gensym) (gensym)) \"\") (length (range 3000)) (list (= (car gs) (car gs)) (= (car gs) (car (cdr gs))) (= (car gs) (gensym)))",
    "((lambda (s) (block (length (range 3000)) (list (= s 'transient) (= 'transient 'transient)))) 'transient)",
    "(list (= (get-current-module) 'default) (= (type-of 1) 'number-type) (= '& (car '(&))))",
]

def run(tier, seed):
    rep = Report(PID, tier, seed)
    standard_proof_phase(rep, TARGETS, IMPORTS, THEOREMS)
    hits, bad, first = run_heap_check(rep, tier, seed, 4, ["C04"])
    for h in hits.get("C04", [])[:3]:
        rep.violation("heap history: " + h["what"], h)
    # equality of symbols through the evaluator, model vs binary, under each schedule
    from ..evalprop import ProgramSet, run_sets, report_disagreements, last_result, result_tree
    expected = ["(t () t)", "(t () t ())", "(() () t)", "t", "(t () ())", "(t t)", "(t t t)"]
    sets = [ProgramSet("syms_" + sch, SYM_PROGRAMS, opts=f"gc={sch}", compare_polls=True, shard_size=8, timeout=60.0) for sch in ("nat", "every", "k5")]
    run_sets(rep, sets)
    for ps in sets:
        for i, (p, exp) in enumerate(zip(SYM_PROGRAMS, expected)):
            r = ps.parsed[i]
            st, d = last_result(r)
            pa = run_driver_cases(evalcorr.driver_lines(["(print (block " + p.split(") (", 0)[0] + "))" if False else p], "p", ps.opts), timeout=60.0) if False else None
            t = result_tree(r)
            got = None
            if t is not None and st == "ok":
                def pr(x):
                    x = dump.strip_meta(x)
                    if x[0] == "nil": return "()"
                    if x[0] == "sym": return x[1]
                    items = dump.list_items(x)
                    return "(" + " ".join(pr(y) for y in items) + ")"
                got = pr(t)
            if got != exp:
                rep.violation(f"symbol identity: {p} gives {got}, expected {exp} (collection schedule {ps.opts})", {"program": p, "opts": ps.opts, "observed": ps.answers[i][:300]})
    if bad and not rep.violations:
        rep.broken.append(f"correspondence heap model/implementation: {len(bad)} histories diverge; first: {json.dumps(first)[:600]}")
    if not rep.violations:
        report_disagreements(rep, sets, "symbol equality through the evaluator")
    rep.coverage["exhaustive"] = False
    return rep.finish("make -C coq Properties/C04.vo && coqc <pinned statements>", TRUSTED_BASE_COMMON + ["axioms: none"],
                      "generated heap histories over 6 symbol names (intern, drop, collect, intern again; symbols kept alive only through cons/function/metadata/global) with the table compared after every operation and monitored; 7 symbol-equality programs x 3 collection schedules (model vs binary vs expected); non-trivial as for C01")

def replay(path):
    r = json.load(open(path)); print(json.dumps(r, indent=1)[:3000]); return 0
