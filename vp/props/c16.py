"""C16 - prelude functions and macros compute what their documentation says."""
import re
from ..common import *
from .. import dump, evalcorr
from ..evalprop import *

PID = "C16"
MANIFEST = {
    "text": "Theorems about the closures obtained by loading the GENERATED text of prelude.lisp with the model reader and evaluator inside Coq: the prelude loads without error (kernel computation), and for ALL operand forms X, Y the control macros and / or / when / not, apply, throw and the catch / catch-all clauses of try expand to the documented forms, let with EVERY number of bindings expands to the application of a lambda over the names to the value forms (through unzip-list, proved for every even-length list), case with EVERY number of clauses expands to nested conditionals ending in nil (foldl and foldr restated with a guard on the elements: the clause function fails on a clause that is not a list of two), the list functions length, range, foldl, reverse, map, zip, last, init, foldr and enumerate are proved for EVERY list, + * - / for EVERY list of numbers whose intermediate results stay in the 64-bit range (sum, product, first minus the sum of the others, first divided by the product of the others; 0 / 1 / 0 / 1 for no argument, negation / reciprocal for one; foldl restated with a guarded step because the primitives can signal; the guard of - is false exactly on the open finding minus-spurious-overflow), <= >= /= for EVERY pair of numbers, append for every two lists and concat for EVERY list of lists (one level of recursion depth per list, as the premise says) - any length, any elements, and for foldl and map every function whose applications evaluate - by induction over the list through the evaluator's tail-call rules, with the result AND the fact that the loop runs at the depth it was called at (fuel linear in the length); get-property-safe (through which every catch clause reads the kind of a signal) returns for EVERY key and EVERY value what the primitive . returns and nil whenever . signals, and and / or / when / not expand to conditionals in which each operand occurs exactly where and as often as the documentation implies (each operand evaluated at most once, the second only when needed) - proved by symbolic evaluation of the macro bodies through the derived evaluator rules. A change of prelude.lisp regenerates the text and the loaded closures, so either the computed closure no longer matches the lemma about its body or the theorem fails. The list functions (map foldl foldr reverse zip length enumerate range append concat last init apply), the variadic arithmetic and comparisons are tied to their documented results by generated calls (lists of length 0..60 of mixed elements, native / closure / variadic / fixed-arity / signalling function arguments, operands with output side effects) run in the model and on the binary and checked against independent specification functions.",
    "note": "The 'for every list' statements are theorems for length, range, foldl, reverse, map, zip, last, init, foldr, enumerate, + * - /, <= >= /=, append and concat; for apply on functions and block they are validated by the differential check and the specification monitors (lists up to 20000 elements), not proved. Trusted: Coq kernel; transcription of the evaluator; prelude text generated from the source.",
    "technique": "Coq symbolic evaluation of the generated prelude text: macro bodies for all operands; list functions by induction over the list through loop-level evaluator rules (result and constant depth) + kernel computation on the generated prelude + differential check against specification functions incl. lists far beyond the recursion limit",
}
TARGETS = ["Properties/C16.v", "Eval/PreludeState.v"]
IMPORTS = ["Eval.EvalRules", "Eval.PreludeState", "Eval.PreludeProofs", "Eval.CatchProofs", "Eval.MacroProofs2", "Eval.LengthProofs", "Eval.RangeProofs", "Eval.FoldProofs", "Eval.MapProofs", "Eval.ZipProofs", "Eval.LastProofs", "Eval.InitProofs", "Eval.FoldrProofs", "Eval.EnumerateProofs", "Eval.SumProofs", "Eval.CompareProofs", "Eval.MinusProofs", "Eval.DivideProofs", "Eval.ConcatProofs", "Eval.UnzipProofs", "Eval.CaseProofs", "Properties.C16"]
THEOREMS = [
    ("C16_prelude_loads", "prelude_ok = true /\\ repl_ok = true /\\ debugger_ok = true"),
    ("C16_and_expansion", "forall X Y, macro_expands_to (s \"and\") [X; Y] (vec_to_list [vsym \"if\"; X; Y; nil_value])"),
    ("C16_or_expansion", "or_expansion_statement"),
    ("C16_when_expansion", "forall X Y, macro_expands_to (s \"when\") [X; Y] (vec_to_list [vsym \"if\"; X; Y; nil_value])"),
    ("C16_not_expansion", "forall X, macro_expands_to (s \"not\") [X] (vec_to_list [vsym \"if\"; X; nil_value; t_value])"),
    ("C16_catch_all_expansion", "forall B, macro_expands_within 3 (s \"catch-all\") [B] (vec_to_list [vsym \"test\"; t_value; vsym \"body\"; B])"),
    ("C16_catch_expansion", "forall K B, macro_expands_within 5 (s \"catch\") [K; B] (catch_clause K B)"),
    ("C16_get_property_safe_value", "forall key pl v, dot_res pl key = ROk v -> gps_statement key pl v"),
    ("C16_get_property_safe_signal", "forall key pl sg, dot_res pl key = RSig sg -> gps_statement key pl nil_value"),
    ("C16_dot_is_the_primitive", "forall f st pl key env d, call_native (S f) st (s \".\") [pl; key] env d = (st, dot_res pl key)"),
    ("C16_length", "forall xs, in_i64 (Z.of_nat (List.length xs)) = true -> length_statement xs"),
    ("C16_range_nonneg", "forall mv k, getv mv = VNum (Z.of_nat k) -> in_i64 (Z.of_nat k) = true -> range_statement mv (upto k nil_value)"),
    ("C16_range_negative", "forall mv m, getv mv = VNum m -> (m < 0)%Z -> in_i64 (m - 1)%Z = true -> range_statement mv nil_value"),
    ("C16_foldl", "forall fv step K, (4 <= K)%nat -> (forall acc x r d, (d + 3 <= MAXD)%N -> evals_to K fl_step (fl_env fv acc (VCons x r)) (d + 1)%N (step acc x)) -> forall tl, is_nil tl = true -> forall xs acc g st d, has_prelude st -> (d + 3 <= MAXD)%N -> exists st', eval_loop (2 * List.length xs + K + 4 + g)%nat st fl_body (fl_env fv acc (onto xs tl)) pm d = (st', ROk (fold_left step xs acc)) /\\ has_prelude st'"),
    ("C16_reverse", "forall xs tl, is_nil tl = true -> reverse_statement xs tl"),
    ("C16_map", "forall fv g K, (2 <= K)%nat -> (forall x r acc d, (d + 4 <= MAXD)%N -> evals_to K mm_app (mm_env fv (VCons x r) acc) (d + 1 + 1)%N (g x)) -> forall tl xs st d, is_nil tl = true -> has_prelude st -> (d + 5 <= MAXD)%N -> exists fuel st' r, eval_loop fuel st mp_body (mp_env fv (onto xs tl)) pm d = (st', ROk r) /\\ has_prelude st' /\\ strip r = strip (vec_to_list (map g xs))"),
    ("C16_zip", "forall tl1 tl2 xs ys st d, is_nil tl1 = true -> is_nil tl2 = true -> has_prelude st -> (d + 5 <= MAXD)%N -> exists fuel st' r, eval_loop fuel st zp_body (zp_env (onto xs tl1) (onto ys tl2)) pm d = (st', ROk r) /\\ has_prelude st' /\\ strip r = strip (vec_to_list (map pair_of (combine xs ys)))"),
    ("C16_last", "forall xs x tl, is_nil tl = true -> last_statement xs x tl"),
    ("C16_init", "forall xs x tl, is_nil tl = true -> init_statement xs x tl"),
    ("C16_foldr", "forall fv iv tv g K, (2 <= K)%nat -> (forall acc x d, (d + 3 <= MAXD)%N -> forall st0 g0, has_prelude st0 -> exists st1, eval_loop (K + g0)%nat st0 (fr_app fv iv tv) (fr_app_env fv iv tv acc x) pm (d + 1)%N = (st1, ROk (g x acc)) /\\ has_prelude st1) -> forall tl xs st d, tv = onto xs tl -> is_nil tl = true -> has_prelude st -> (d + 5 <= MAXD)%N -> exists fuel st', eval_loop fuel st fr_body (fr_env fv iv tv) pm d = (st', ROk (fold_right g iv xs)) /\\ has_prelude st'"),
    ("C16_foldr_instance", "forall xs st d, has_prelude st -> (d + 5 <= MAXD)%N -> exists fuel st', eval_loop fuel st fr_body (fr_env cons_native_v VNil (vec_to_list xs)) pm d = (st', ROk (fold_right VCons VNil xs)) /\\ has_prelude st'"),
    ("C16_apply_expansion", "forall F A, macro_expands_within 4 (s \"apply\") [F; A] (vec_to_list [vec_to_list [vsym \"unrest\"; F]; A])"),
    ("C16_throw_expansion", "forall body, macro_expands_within 4 (s \"throw\") body (vec_to_list [vsym \"signal\"; VCons (vsym \"list\") (vec_to_list body)])"),
    ("C16_enumerate", "forall xs st d, in_i64 (Z.of_nat (List.length xs)) = true -> has_prelude st -> (d + 6 <= MAXD)%N -> exists fuel st' r, eval_loop fuel st en_body (en_env (vec_to_list xs)) pm d = (st', ROk r) /\\ has_prelude st' /\\ strip r = strip (vec_to_list (map pair_of (combine xs (indices (List.length xs)))))"),
    ("C16_map_instance", "forall xs st d, has_prelude st -> (d + 5 <= MAXD)%N -> exists fuel st' r, eval_loop fuel st mp_body (mp_env list_native (vec_to_list xs)) pm d = (st', ROk r) /\\ has_prelude st' /\\ strip r = strip (vec_to_list (map (fun x => vec_to_list [x]) xs))"),
    ("C16_plus", "forall vals zs st d, Forall2 (fun v z => getv v = VNum z) vals zs -> in_range_from Z.add 0 zs = true -> has_prelude st -> (d + 4 <= MAXD)%N -> exists fuel st' r, eval_loop fuel st pl_body (pl_env (vec_to_list vals)) pm d = (st', ROk r) /\\ has_prelude st' /\\ getv r = VNum (fold_left Z.add zs 0%Z)"),
    ("C16_times", "forall vals zs st d, Forall2 (fun v z => getv v = VNum z) vals zs -> in_range_from Z.mul 1 zs = true -> has_prelude st -> (d + 4 <= MAXD)%N -> exists fuel st' r, eval_loop fuel st tm_body (tm_env (vec_to_list vals)) pm d = (st', ROk r) /\\ has_prelude st' /\\ getv r = VNum (fold_left Z.mul zs 1%Z)"),
    ("C16_plus_call_env", "forall src vals i n, (let '(ps, _, e, _) := plus_parts in pair_params src ps true vals e i n) = inl (pl_env (vec_to_list vals))"),
    ("C16_less_or_equal", "forall x y a b st d, getv x = VNum a -> getv y = VNum b -> has_prelude st -> (d + 3 <= MAXD)%N -> exists fuel st' r, eval_loop fuel st (c_body \"<=\") (c_env \"<=\" x y) pm d = (st', ROk r) /\\ has_prelude st' /\\ r = bool_val (a <=? b)%Z"),
    ("C16_greater_or_equal", "forall x y a b st d, getv x = VNum a -> getv y = VNum b -> has_prelude st -> (d + 3 <= MAXD)%N -> exists fuel st' r, eval_loop fuel st (c_body \">=\") (c_env \">=\" x y) pm d = (st', ROk r) /\\ has_prelude st' /\\ r = bool_val (a >=? b)%Z"),
    ("C16_not_equal", "forall x y a b st d, getv x = VNum a -> getv y = VNum b -> has_prelude st -> (d + 3 <= MAXD)%N -> exists fuel st' r, eval_loop fuel st ne_body (ne_env x y) pm d = (st', ROk r) /\\ has_prelude st' /\\ is_nil r = (a =? b)%Z"),
    ("C16_minus", "forall vals zs st d, Forall2 (fun v z => getv v = VNum z) vals zs -> minus_ok zs = true -> has_prelude st -> (d + 5 <= MAXD)%N -> exists fuel st' r, eval_loop fuel st mi_body (mi_env (vec_to_list vals)) pm d = (st', ROk r) /\\ has_prelude st' /\\ getv r = VNum (minus_spec zs)"),
    ("C16_divide", "forall vals zs st d, Forall2 (fun v z => getv v = VNum z) vals zs -> divide_ok zs = true -> has_prelude st -> (d + 5 <= MAXD)%N -> exists fuel st' r, eval_loop fuel st dv_body (dv_env (vec_to_list vals)) pm d = (st', ROk r) /\\ has_prelude st' /\\ getv r = VNum (divide_spec zs)"),
    ("C16_minus_divide_spec", "(forall z, minus_spec [z] = (- z)%Z) /\\ minus_spec [] = 0%Z /\\ divide_spec [] = 1%Z /\\ (forall z r rs, minus_spec (z :: r :: rs) = (z - fold_left Z.add (r :: rs) 0)%Z) /\\ (forall z r rs, divide_spec (z :: r :: rs) = Z.quot z (fold_left Z.mul (r :: rs) 1%Z)) /\\ (forall z, divide_spec [z] = Z.quot 1 z) /\\ minus_ok [0; 9223372036854775807; 1]%Z = false /\\ divide_ok [1; 0]%Z = false /\\ divide_ok [100; 5; 2]%Z = true"),
    ("C16_append", "forall f st a b la lb env d, list_to_vec a = Some la -> list_to_vec b = Some lb -> call_native (S f) st (s \"append\") [a; b] env d = (st, ROk (vec_to_list (la ++ lb)))"),
    ("C16_concat", "forall vals ls st d, Forall2 (fun v l => list_to_vec v = Some l) vals ls -> has_prelude st -> (d + N.of_nat (List.length vals) + 3 <= MAXD)%N -> exists fuel st' r, eval_loop fuel st co_body (co_env (vec_to_list vals)) pm d = (st', ROk r) /\\ has_prelude st' /\\ list_to_vec r = Some (List.concat ls)"),
    ("C16_unzip_list", "forall tl ps d st, is_nil tl = true -> (d + N.of_nat (List.length ps) + 5 <= MAXD)%N -> has_prelude st -> exists fuel st', eval_loop fuel st uz_body (uz_env (flat ps tl)) pm d = (st', ROk (uzres ps)) /\\ has_prelude st'"),
    ("C16_let_expansion", "forall ps B, macro_expands_within (N.of_nat (List.length ps) + 8) (s \"let\") [flat ps VNil; B] (VCons (vec_to_list [vsym \"lambda\"; vec_to_list (map fst ps); B]) (vec_to_list (map snd ps)))"),
    ("C16_case_expansion", "forall cls, Forall clause cls -> macro_expands_within 6 (s \"case\") cls (nested_ifs cls)"),
    ("C16_case_shape", "(forall x r, nested_ifs (x :: r) = vec_to_list [cs_if; cond_of x; value_of x; nested_ifs r]) /\\ nested_ifs [] = nil_value /\\ getv cs_if = VSym (Named (s \"if\")) /\\ (forall c v r, clause (VCons c (VCons v r)) /\\ cond_of (VCons c (VCons v r)) = c /\\ value_of (VCons c (VCons v r)) = v)"),
]

def lst(xs):
    return "(list " + " ".join(str(x) for x in xs) + ")" if xs else "()"

def gen_list(rng, maxlen):
    n = rng.choice([0, 0, 1, 2, 3, 5, 8, rng.range(0, maxlen)])
    return [rng.range(-9, 30) for _ in range(n)]

def spec_cases(rng, maxlen):
    """(program, expected printed result or None) - expectations from the documentation, computed independently"""
    cases = []
    def pr(x):
        if isinstance(x, list): return "(" + " ".join(pr(y) for y in x) + ")" if x else "()"
        if isinstance(x, tuple): return "(cons " + pr(x[0]) + " " + pr(x[1]) + ")"
        return str(x)
    l, m = gen_list(rng, maxlen), gen_list(rng, maxlen)
    k = rng.range(-3, 12)
    cases.append((f"(map (lambda (x) (add x {k})) {lst(l)})", pr([x + k for x in l])))
    cases.append((f"(map car (map (lambda (x) (list x x)) {lst(l)}))", pr(l)))
    cases.append((f"(foldl (lambda (acc x) (substract acc x)) {k} {lst(l)})", pr(k - sum(l))))
    acc = k
    for x in reversed(l): acc = x - acc
    cases.append((f"(foldr (lambda (x acc) (substract x acc)) {k} {lst(l)})", pr(acc)))
    cases.append((f"(foldl cons 'z {lst(l[:4])})", None))
    cases.append((f"(reverse {lst(l)})", pr(l[::-1])))
    cases.append((f"(length {lst(l)})", pr(len(l))))
    cases.append((f"(zip {lst(l)} {lst(m)})", pr([(a, b) for a, b in zip(l, m)])))
    cases.append((f"(enumerate {lst(l)})", pr([(a, i) for i, a in enumerate(l)])))
    n = rng.range(0, maxlen)
    cases.append((f"(range {n})", pr(list(range(n)))))
    cases.append((f"(append {lst(l)} {lst(m)})", pr(l + m)))
    cases.append((f"(concat {lst(l)} {lst(m)} {lst(l)})", pr(l + m + l)))
    cases.append((f"(concat)", "()"))
    if l:
        cases.append((f"(last {lst(l)})", pr(l[-1])))
    cases.append((f"(init {lst(l)})", pr(l[:-1])))
    cases.append((f"(+ {' '.join(map(str, l))})", pr(sum(l))))
    p = 1
    for x in l[:6]: p *= x
    cases.append((f"(* {' '.join(map(str, l[:6]))})", pr(p)))
    if l:
        cases.append((f"(- {' '.join(map(str, l))})", pr(-l[0] if len(l) == 1 else l[0] - sum(l[1:]))))
    else:
        cases.append(("(-)", "0"))
    cases.append((f"(apply + {lst(l)})", pr(sum(l))))
    # apply calls the function it is given: a closure keeps the variables it captured, whatever is bound at the call site
    kk = rng.range(2, 50)
    l3 = l[:3]
    cases.append((f"((lambda (mk) (apply (mk {kk}) {lst(l3)})) (lambda (k) (lambda (& xs) (map (lambda (x) (add x k)) xs))))", pr([x + kk for x in l3])))
    cases.append((f"((lambda (mk) ((lambda (k xs) (apply (mk {kk}) {lst(l3)})) 1000 'shadow)) (lambda (k) (lambda (& xs) (map (lambda (x) (add x k)) xs))))", pr([x + kk for x in l3])))
    # (apply on a function with fixed parameters is the open finding apply-fixed-arity; it has its own probe)
    # / : no argument 1, one argument 1 divided by it, otherwise the first divided by the product of the others (truncating division)
    quot = lambda x, y: abs(x) // abs(y) * (1 if (x >= 0) == (y > 0) else -1)
    dl = [x for x in l[:4] if x != 0]
    if not dl:
        cases.append(("(/)", "1"))
    elif len(dl) == 1:
        cases.append((f"(/ {dl[0]})", pr(quot(1, dl[0]))))
    else:
        den = 1
        for x in dl[1:]: den *= x
        cases.append((f"(/ {dl[0] * 1000} {' '.join(map(str, dl[1:]))})", pr(quot(dl[0] * 1000, den))))
    a, b = rng.range(-3, 3), rng.range(-3, 3)
    tf = lambda c: "t" if c else "()"
    cases.append((f"(list (<= {a} {b}) (>= {a} {b}) (/= {a} {b}))", f"({tf(a <= b)} {tf(a >= b)} {tf(a != b)})"))
    return cases

# signals of every shape through try/catch, and get-property-safe on every shape: (expression, printed value, kind or None)
SIGNAL_SHAPES = [("5", "5", None), ("\"str\"", "\"str\"", None), ("'sym", "sym", None), ("'(1 2 3)", "(1 2 3)", None), ("(list \"m\" 2)", "(\"m\" 2)", None),
                 ("'(kind)", "(kind)", None), ("'(kind my-kind)", "(kind my-kind)", "my-kind"), ("'(a 1 kind my-kind)", "(a 1 kind my-kind)", "my-kind"),
                 ("'(kind other)", "(kind other)", "other"), ("'(1 . 2)", "(1 . 2)", None), ("'(a 1 b)", "(a 1 b)", None), ("'(a b c d)", "(a b c d)", None),
                 ("'(1 kind)", "(1 kind)", None), ("'((kind my-kind))", "((kind my-kind))", None), ("%c", "%c", None)]

def catch_cases():
    """documented behaviour of try / catch / catch-all / get-property-safe on signals of every shape"""
    cases = []
    for expr, shown, kind in SIGNAL_SHAPES:
        cases.append((f"(try (signal {expr}) (catch my-kind (lambda (e) 'mine)) (catch-all (lambda (e) (list 'caught e))))", "mine" if kind == "my-kind" else f"(caught {shown})"))
        cases.append((f"(try (signal {expr}) (catch other (lambda (e) 'other)) (catch my-kind (lambda (e) (list 'mine e))))",
                      "other" if kind == "other" else f"(mine {shown})" if kind == "my-kind" else None))
        cases.append((f"(get-property-safe 'kind {expr})", kind if kind else "()"))
    return cases

def long_list_cases(n):
    """the documented results hold for lists of ANY length: far beyond the recursion limit of 1024
    (the definitions are accumulator-style tail recursions; one level of depth per element would overflow)"""
    r = f"(range {n})"
    return [
        (f"(length (map (lambda (x) (add x x)) {r}))", str(n)),
        (f"(last (map (lambda (x) (add x x)) {r}))", str(2 * (n - 1))),
        (f"(car (map (lambda (x) (add x 1)) {r}))", "1"),
        (f"(length {r})", str(n)), (f"(last {r})", str(n - 1)), (f"(car (reverse {r}))", str(n - 1)), (f"(length (reverse {r}))", str(n)),
        (f"(foldl add 0 {r})", str(n * (n - 1) // 2)), (f"(foldl (lambda (acc x) (add acc 1)) 0 {r})", str(n)),
        (f"(length (zip {r} {r}))", str(n)), (f"(car (last (zip {r} {r})))", str(n - 1)),
        (f"(length (enumerate {r}))", str(n)), (f"(length (append {r} {r}))", str(2 * n)), (f"(length (concat {r} {r} {r}))", str(3 * n)),
        (f"(length (init {r}))", str(n - 1)), (f"(apply + {r})", str(n * (n - 1) // 2)),
        (f"(foldr (lambda (x acc) (add x acc)) 0 {r})", str(n * (n - 1) // 2)), (f"(car (foldr (lambda (x acc) (cons x acc)) nil {r}))", "0"),
        (f"(length (unzip-list {r}))", None),
    ]

def effect_cases():
    """control macros: each operand at most once, only when needed - observed through the output"""
    o = lambda tag, v: f"(block (output \"{tag}\") {v})"
    return [
        (f"(and {o('a', 't')} {o('b', 7)})", "7", "a\nb\n"), (f"(and {o('a', 'nil')} {o('b', 7)})", "()", "a\n"),
        (f"(or {o('a', 'nil')} {o('b', 7)})", "7", "a\nb\n"), (f"(or {o('a', 5)} {o('b', 7)})", "5", "a\n"),
        (f"(when {o('a', 't')} {o('b', 7)})", "7", "a\nb\n"), (f"(when {o('a', 'nil')} {o('b', 7)})", "()", "a\n"),
        (f"(not {o('a', 't')})", "()", "a\n"), (f"(not {o('a', 'nil')})", "t", "a\n"),
        (f"(block {o('a', 1)} {o('b', 2)} {o('c', 3)})", "3", "a\nb\nc\n"),
        (f"(let (x {o('a', 1)} y {o('b', 2)}) (list y x x))", "(2 1 1)", "a\nb\n"),
        (f"(case ({o('a', 'nil')} {o('x', 1)}) ({o('b', 't')} {o('y', 2)}) ({o('c', 't')} {o('z', 3)}))", "2", "a\nb\ny\n"),
        (f"(try {o('a', 1)} (catch-all (lambda (e) {o('h', 2)})))", "1", "a\n"),
        (f"(try (block (output \"a\") (car 5)) (catch wrong-argument-type (lambda (e) {o('h', 2)})) (catch-all (lambda (e) {o('g', 3)})))", "2", "a\nh\n"),
        (f"(try (throw 'kind 'mine 'v {o('p', 9)}) (catch mine (lambda (e) (. e 'v))))", "9", "p\n"),
        (f"(map (lambda (x) {o('f', 'x')}) '(1 2 3))", "(1 2 3)", "f\nf\nf\n"),
        (f"(foldl (lambda (a x) {o('f', '(add a x)')}) 0 '(1 2 3))", "6", "f\nf\nf\n"),
    ]

def run(tier, seed):
    rep = Report(PID, tier, seed)
    standard_proof_phase(rep, TARGETS, IMPORTS, THEOREMS)
    rng = Rng(seed, 16)
    known = load_known()
    cases = []
    for i in range(12 if tier == "quick" else 300):
        cases += spec_cases(rng, 40 if tier == "quick" else 60)
    cases += catch_cases()
    cases += long_list_cases(1100)       # just beyond the recursion limit: model and binary
    long_cases = long_list_cases(2500 if tier == "quick" else 20000)    # far beyond it: binary only (the model would need minutes of fuel)
    eff = effect_cases()
    misc = ["(map car '((1) (2)))", "(map (lambda (x & r) r) '(1 2))", "(map add '(1 2))", "(map (lambda (x) (car x)) '(1))", "(foldl add 0 '(1 a 2))", "(zip '(1 2 3) '(a))", "(length 5)",
            "(reverse \"abc\")", "(last nil)", "(init nil)", "(range 0)", "(apply list '(1 2))", "(apply (lambda (& xs) xs) '(1 2))", "(/ 100 5 2)", "(/ 5)", "(/)", "(-)", "(+)", "(*)",
            "(concat \"ab\" '(1) nil)", "(enumerate \"ab\")", "(describe map)", "(get-property-safe 'a '(a 1))", "(get-property-safe 'a 5)", "(unzip-list '(a 1 b 2))",
            "(let (a 1 b) a)", "(case)", "(block)", "(throw 'kind 'x)", "(try (signal 'plain) (catch-all (lambda (e) e)))", "(try (car 5) (catch unbound-symbol (lambda (e) 1)))",
            "(apply add (list 1 2))", "(- 0 9223372036854775807 1)", "(range -1)"]
    progs = [c[0] for c in cases] + [e[0] for e in eff] + misc
    sets = [ProgramSet("prelude", progs, shard_size=25, timeout=8.0)]
    run_sets(rep, sets)
    ps = sets[0]
    # monitors: documented results
    def printed(i):
        r = ps.parsed[i]
        st, d = last_result(r)
        if st != "ok":
            return None, r
        pa = run_driver_cases(evalcorr.driver_lines(["(print " + ("'" if False else "") + progs[i] + ")"]))   # printed form through the interpreter's own printer
        rr = dump.split_run_answer(pa[0])
        t = result_tree(rr)
        return (dump.text_of(t) if t is not None else None), r
    wrong = 0
    for i, (p, exp) in enumerate(cases):
        if exp is None:
            continue
        got, r = printed(i)
        if got != exp:
            wrong += 1
            if wrong <= 3:
                rep.violation(f"{p} does not return its documented result {exp}", {"program": p, "expected": exp, "observed": got if got is not None else ps.answers[i][:300]})
    # the documented value for a call without arguments, read from the docstrings of the source itself
    src = open("/repo/src/prelude.lisp").read()
    zero_docs = []
    for fn in ["+", "*", "-", "/"]:
        m = re.search(r"\(defun " + re.escape(fn) + r" \(& numbers\)\s*\"([^\"]*)\"", src)
        if m:
            mm = re.search(r"[Rr]eturn (-?\d+) if called wh?ith 0 arguments|called with 0 arguments: return (-?\d+)", m.group(1))
            if mm:
                zero_docs.append((fn, mm.group(1) or mm.group(2)))
    za = run_driver_cases(evalcorr.driver_lines([f"(print ({fn}))" for fn, _ in zero_docs]))
    rep.evaluations += len(zero_docs)
    for (fn, want), a in zip(zero_docs, za):
        t = result_tree(dump.split_run_answer(a))
        got = dump.text_of(t) if t is not None else None
        if got != want:
            rep.violation(f"({fn}) returns {got}, its documentation says {want}", {"program": f"({fn})", "expected": want, "observed": got if got is not None else a[:200]})
    rep.coverage["zero_argument_docs"] = len(zero_docs)
    long_answers = run_driver_cases(evalcorr.driver_lines(["(print " + p + ")" for p, _ in long_cases]), timeout=60.0)
    rep.evaluations += len(long_cases)
    for (p, exp), a in zip(long_cases, long_answers):
        if exp is None:
            continue
        rr = dump.split_run_answer(a)
        t = result_tree(rr)
        got = dump.text_of(t) if t is not None else None
        if got != exp:
            rep.violation(f"{p} does not return its documented result {exp}", {"program": p, "expected": exp, "observed": got if got is not None else a[:300]})
    base = len(cases)
    for j, (p, exp, out) in enumerate(eff):
        got, r = printed(base + j)
        gout = r.get("out") if "out" in r else None
        if got != exp or gout != out:
            what = f"{p}: expected value {exp} with output {out!r}, observed {got} with output {gout!r}"
            entry = [k for k in known["open"] if k["property"] == PID and k.get("class") == "or-double-eval"]
            if p.startswith("(or ") and entry and gout == "a\na\n":
                line = f"KNOWN-FINDING: property={PID} {entry[0]['what']}"
                if line not in rep.known_lines: rep.known_lines.append(line)
            else:
                rep.violation("a control macro evaluates an operand more than once / when not needed, or returns the wrong value: " + what, {"program": p, "expected": [exp, out], "observed": [got, gout]})
    mbase = base + len(eff)
    for j, p in enumerate(misc):
        r = ps.parsed[mbase + j]
        sp = r.get("special")
        cls = {"(range -1)": "range-negative", "(apply add (list 1 2))": "apply-fixed-arity", "(- 0 9223372036854775807 1)": "minus-spurious-overflow",
               "(try (car 5) (catch unbound-symbol (lambda (e) 1)))": "try-swallows"}.get(p)
        bad = None
        if sp == "timeout": bad = "does not terminate"
        elif sp in ("panic", "crash"): bad = "crashes the interpreter"
        elif cls == "apply-fixed-arity" and last_result(r)[0] != "ok": bad = "apply does not work for a fixed-arity function"
        elif cls == "minus-spurious-overflow" and last_result(r)[0] != "ok": bad = "sequential subtraction signals overflow although every step is representable"
        elif cls == "try-swallows" and last_result(r)[0] == "ok": bad = "try silently swallows a signal that no catcher matches"
        if bad:
            entry = [k for k in known["open"] if k["property"] == PID and k.get("class") == cls] if cls else []
            if entry:
                rep.known_lines.append(f"KNOWN-FINDING: property={PID} {entry[0]['what']}")
            else:
                rep.violation(f"{p} {bad}", {"program": p, "observed": ps.answers[mbase + j][:300]})
    if not rep.violations:
        report_disagreements(rep, sets, "prelude functions through the evaluator")
    rep.nontrivial = len(set(progs))
    rep.samples = [progs[0], progs[7], eff[2][0]]
    rep.coverage.update({"outcomes": outcome_kinds(sets), "specified_results_checked": len([c for c in cases if c[1] is not None]), "effect_cases": len(eff), "exhaustive": False})
    return rep.finish("make -C coq Properties/C16.vo && coqc <pinned statements>", TRUSTED_BASE_COMMON + ["axioms: none"],
                      "generated calls of every documented prelude function on lists of length 0..40 (quick) / 60 with independently computed expected results; control macros with output-producing operands (value and output compared); edge cases (empty, wrong types, signalling functions, variadic/fixed arity); every program distinct")

def replay(path):
    return generic_replay(path)
