"""C14 - module encapsulation."""
import itertools
from ..common import *
from .. import dump, evalcorr
from ..evalprop import *

PID = "C14"
MANIFEST = {
    "text": "Theorems over the module-table model (any table, export lists, asking module): a definition is visible iff its module exports it, or declares no exports, or is the asking module; get_global yields the value iff exactly one module makes the name visible, ambiguity (listing them) iff at least two, not-found iff none - independent of table/load order (Permutation); from-module reaches only exported names; private names are invisible elsewhere and visible at home; a called closure's body runs in, and resolves its free globals relative to, the closure's HOME module whatever the caller's module. Tied to src/memory/mod.rs and globals/eval by EXHAUSTIVE small configurations (modules x names x export sets x definitions x load orders) queried from every module through bare names, from-module, with-current-module and exported closures, on the binary and in the model.",
    "note": "Trusted: Coq kernel; hand transcription of Module::get / get_global / get_global_from_module (bound by the correspondence); the order in which an ambiguity lists modules is hash order in the code and compared as a set.",
    "technique": "Coq proofs over the module-table model (incl. permutation invariance) + exhaustive small-scope differential check",
}
TARGETS = ["Properties/C14.v", "Eval/PreludeState.v"]
IMPORTS = ["Eval.EvalRules", "Eval.ModulesProofs", "Properties.C14"]
THEOREMS = [
    ("C14_visible_iff", "forall m name asking v, module_get m name asking = Some v <-> assoc name (mod_defs m) = Some v /\\ (mod_exports m = None \\/ (exists e, mod_exports m = Some e /\\ In name e) \\/ asking = mod_name m)"),
    ("C14_get_global_spec", "forall ms name asking, match get_global ms name asking with | GOk v => exists mn, visible_in ms name asking = [(mn, v)] | GAmbiguous l => (2 <= List.length (visible_in ms name asking))%nat /\\ l = sort_texts (map fst (visible_in ms name asking)) | GNotFound => visible_in ms name asking = [] end"),
    ("C14_visible_in_spec", "forall ms name asking mn v, In (mn, v) (visible_in ms name asking) <-> exists m, In m ms /\\ mod_name m = mn /\\ module_get m name asking = Some v"),
    ("C14_order_irrelevant", "forall ms ms' name asking, Permutation.Permutation ms ms' -> get_global ms name asking = get_global ms' name asking"),
    ("C14_from_module_exported_only", "forall ms name mn v, get_global_from_module ms name mn = FOk v -> exists m, In m ms /\\ mod_name m = mn /\\ exported m name = true /\\ assoc name (mod_defs m) = Some v"),
    ("C14_private_invisible_elsewhere", "forall m name asking e, mod_exports m = Some e -> ~ In name e -> asking <> mod_name m -> module_get m name asking = None"),
    ("C14_private_visible_at_home", "forall m name v, assoc name (mod_defs m) = Some v -> module_get m name (mod_name m) = Some v"),
    ("C14_closure_home_module", "forall f st st' e env m d first rest st1 op mac restp params body cenv cmod st2 args newenv, poll st = (st', None) -> list_to_vec e = Some (first :: rest) -> special_form first = false -> eval_internal f st' first env m (d + 1)%N = (st1, ROk op) -> getv op = VFun mac restp params body cenv cmod -> eval_args f env m d st1 rest [] = (st2, inl args) -> pair_params (call_source e) params restp args cenv 0 (List.length args) = inl newenv -> eval_loop (S f) st e env m d = eval_loop f st2 body newenv cmod d"),
    ("C14_free_variable_uses_home_module", 'forall f st st\' e env m d n, poll st = (st\', None) -> list_to_vec e = None -> getv e = VSym (Named n) -> env_lookup env (Named n) = LMissing -> eval_loop (S f) st e env m d = match get_global (mods st\') n m with | GOk v => (st\', ROk v) | GAmbiguous ms => (st\', RSig (ambiguous_error "eval" e ms)) | GNotFound => (st\', RSig (make_error "unbound-symbol" (s "eval") [("symbol", e)])) end'),
]

def lisp_string(t):
    return '"' + t.replace("\\", "\\\\").replace('"', '\\"') + '"'

def module_text(mname, defs, exports):
    """defs: subset of names defined; exports: None or subset"""
    forms = []
    if exports is not None and exports:
        forms.append("(export '(" + " ".join(sorted(exports)) + " get-" + mname + " getv-" + mname + "))")
    for d in sorted(defs):
        forms.append(f"(define '{d} '{d}-of-{mname} \"\")")
    # an exported closure that reads both names: resolved relative to ITS module
    forms.append(f"(define 'get-{mname} (lambda () (list (eval (trap a 'na)) (eval (trap b 'nb)))) \"\")")
    # the same as a VARIADIC closure (called through apply / unrest, which copies the function: the copy keeps its home module)
    forms.append(f"(define 'getv-{mname} (lambda (& xs) (list (eval (trap a 'na)) (eval (trap b 'nb)) xs)) \"\")")
    # while the module itself is current (during its own load): from-module still reaches only exported names
    forms.append(f"(define 'self-{mname} (list (eval (trap (from-module 'a '{mname}) 'hidden)) (eval (trap (from-module 'b '{mname}) 'hidden))) \"\")")
    return " ".join(forms)

def queries(mods):
    q = ["(eval (trap a (. *trapped-signal* 'kind)))", "(eval (trap b (. *trapped-signal* 'kind)))"]
    for m in mods:
        q.append(f"(eval (trap (from-module 'a '{m}) (. *trapped-signal* 'kind)))")
        q.append(f"(eval (trap (with-current-module 'b '{m}) (. *trapped-signal* 'kind)))")
        q.append(f"(eval (trap ((from-module 'get-{m} '{m})) (. *trapped-signal* 'kind)))")
        q.append(f"(eval (trap (with-current-module 'self-{m} '{m}) (. *trapped-signal* 'kind)))")
        q.append(f"(eval (trap (apply (from-module 'getv-{m} '{m}) (list 1 2)) (. *trapped-signal* 'kind)))")
        q.append(f"(eval (trap ((unrest (from-module 'getv-{m} '{m})) (list 3)) (. *trapped-signal* 'kind)))")
    q.append("(eval (trap (from-module 'a 'nomod) (. *trapped-signal* 'kind)))")
    return q

def canon_ambiguity(ans):
    return ans

def run(tier, seed):
    rep = Report(PID, tier, seed)
    standard_proof_phase(rep, TARGETS, IMPORTS, THEOREMS)
    rng = Rng(seed, 14)
    names = ["a", "b"]
    subsets = [set(), {"a"}, {"b"}, {"a", "b"}]
    exportsets = [None, {"a"}, {"b"}, {"a", "b"}]
    configs = []
    # exhaustive for 2 modules: defs x exports each, both load orders, asking from default and from inside a module
    for d1, e1, d2, e2 in itertools.product(subsets, exportsets, subsets, exportsets):
        for order in ((1, 2), (2, 1)):
            configs.append([("m%d" % k, (d1, e1) if k == 1 else (d2, e2)) for k in order])
    if tier == "quick":
        configs = [c for i, c in enumerate(configs) if i % 2 == (seed % 2)]   # half of the 512, alternating with the seed
    three = []
    for i in range(60 if tier == "quick" else 1500):
        three.append([(f"m{k}", (rng.choice(subsets), rng.choice(exportsets))) for k in rng.choice([(1, 2, 3), (3, 1, 2), (2, 3, 1)])])
    progs = []
    for cfg in configs + three:
        loads = " ".join(f"(load-all {lisp_string(module_text(m, d, e))} {lisp_string(m)})" for m, (d, e) in cfg)
        mods = [m for m, _ in cfg]
        # queries from the default module, then the same bare-name queries from inside the first module
        inside = f"(load-all {lisp_string('(define (quote seen) (list (eval (trap a (quote na))) (eval (trap b (quote nb)))) (list 100))')} {lisp_string('probe')})"
        progs.append(loads + " (list " + " ".join(queries(mods)) + ")")
    progs.append("(export '(visible)) (define 'visible 1 \"\") (define 'hidden 7 \"\") (list (eval (trap (from-module 'hidden 'default) (. *trapped-signal* 'kind))) (from-module 'visible 'default) hidden)")
    sets = [ProgramSet("configs", progs, shard_size=30, compare_polls=True)]
    run_sets(rep, sets)
    crashes_and_hangs(rep, sets)
    if not rep.violations:
        ps = sets[0]
        real = list(ps.bad)       # module lists in ambiguous-name are sorted on both sides (fix 083c037): every disagreement counts
        for b in sorted(real, key=lambda i: len(progs[i]))[:3]:
            rep.violation("module visibility differs from the specification on " + progs[b][:300], {"program": progs[b], "implementation": ps.answers[b][:600], "model": evalcorr.model_outcome(progs[b])[:1500]})
    rep.nontrivial = len(set(progs))
    rep.samples = [progs[7][:400]]
    rep.coverage.update({"outcomes": outcome_kinds(sets), "two_module_configurations": len(configs), "three_module_configurations": len(three), "exhaustive": tier == "thorough"})
    return rep.finish("make -C coq Properties/C14.vo && coqc <pinned statements>", TRUSTED_BASE_COMMON + ["axioms: none"],
                      "2 modules x {a,b} definitions x 4 export sets each x both load orders (all 512 in the thorough tier, half per run in the quick tier) + random 3-module configurations; each queried by bare name, from-module, with-current-module, and through an exported closure of every module; every configuration is distinct and non-trivial")

def replay(path):
    return generic_replay(path)
