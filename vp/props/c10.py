"""C10 - print/read round trip on data."""
import json
from ..common import *
from .. import dump, evalcorr, gen_data
from ..evalprop import *

PID = "C10"
MANIFEST = {
    "text": "THE PROPERTY AS A THEOREM over the transcribed printer and reader (C10_datum_round_trip): for EVERY abstract datum x (integers, characters, symbols, strings, nested lists of any shape, length and depth below the printer's depth limit) in the readable domain and every interpreter value v that denotes it (whatever source metadata it carries, a string being either the list of its characters or the (list c1 .. cn) form): print gives show x; read of that text returns exactly one value with the empty rest; that value denotes the same x; printing it again gives the same text. With more input behind the datum exactly its text is consumed (C10_datum_round_trip_rest). The abstraction is exact: a value denotes at most one datum (C10_denotes_is_a_function) and every value of the domain denotes one (C10_every_proper_value_denotes). Proved by induction over the datum from the token round trips (integers incl. i64::MIN, every readable character, every readable symbol name, every string incl. quotes/backslashes/delimiters), blank skipping and the parser's stack discipline. The excluded class is an open finding with its own refutation theorem (a delimiter character has no literal). Tied to the code by the differential check of print and read and a round-trip monitor on generated data (thorough: every Unicode scalar value).",
    "note": "Characters of the delimiter class ( ) \\\" ' ; , and whitespace without an escape cannot be written as character literals at all (open finding; outside wf); grapheme clusters of several code points are outside the model; the reader model has no depth limit of its own (the native's depth check is on the evaluator side and is covered by the correspondence). Trusted: Coq kernel; transcriptions of print/mod.rs and read/mod.rs (bound by correspondence); format!/parse::<i64> as modelled.",
    "technique": "Coq proof of the datum-level round trip (induction over data of any shape from token-level round-trip lemmas; abstraction relation proved functional and total) + differential check of print and read + round-trip monitor on generated data",
}
TARGETS = ["Properties/C10.v", "Eval/PreludeState.v"]
IMPORTS = ["Data.Reader", "Data.Printer", "Data.ReaderProofs", "Data.RoundTrip", "Data.DecimalProofs", "Data.TokenLemmas", "Data.DatumRoundTrip", "Properties.C10"]
THEOREMS = [
    ("C10_integer_round_trip", "forall z, in_i64 z = true -> parse_i64 (show_i64 z) = Some z"),
    ("C10_character_round_trip", "forall c rest cur, readable_char c = true -> atom_ending rest false = Some true -> exists l1 l2, next_token (print_char c ++ rest) false cur = Some (inl {| tv := TChr c; tloc := l1; trest := rest; tcur := l2 |})"),
    ("C10_symbol_round_trip", "forall c name rest cur, symbol_start c = true -> forallb symbol_char name = true -> atom_ending rest false = Some true -> exists l1 l2, next_token ((c :: name) ++ rest) false cur = Some (inl {| tv := TSym (c :: name); tloc := l1; trest := rest; tcur := l2 |})"),
    ("C10_string_round_trip", "forall t rest cur, exists l1 l2, next_token (print_string t ++ rest) false cur = Some (inl {| tv := TStr t; tloc := l1; trest := rest; tcur := l2 |})"),
    ("C10_number_token_round_trip", "forall z rest cur, in_i64 z = true -> atom_ending rest false = Some true -> exists l1 l2, next_token (show_i64 z ++ rest) false cur = Some (inl {| tv := TNum z; tloc := l1; trest := rest; tcur := l2 |})"),
    ("C10_datum_round_trip", "forall x v d fuel src line col, denotes v x -> wf x = true -> (ddepth x < fuel)%nat -> d + N.of_nat (ddepth x) <= MAX_RECURSION_DEPTH -> print_internal fuel v d = PrOk (show x) /\\ exists v' l, read_text src (show x) false line col = inl (v', [], l) /\\ denotes v' x /\\ print_internal fuel v' d = PrOk (show x)"),
    ("C10_datum_round_trip_rest", "forall x rest src cur, wf x = true -> atom_ending rest false = Some true -> exists v' l, denotes v' x /\\ forall f, rd (ntok x + f) src (show x ++ rest) false cur [] false = inl (v', rest, l)"),
    ("C10_denotes_is_a_function", "forall x v y, denotes v x -> denotes v y -> x = y"),
    ("C10_every_proper_value_denotes", "forall v, proper v = true -> exists x, denotes v x"),
    ("C10_print_of_a_datum", "forall x v d fuel, denotes v x -> (ddepth x < fuel)%nat -> d + N.of_nat (ddepth x) <= MAX_RECURSION_DEPTH -> print_internal fuel v d = PrOk (show x)"),
    ("C10_delimiter_character_refuted", "readable_char c_open = false /\\ show (DChr c_open) = [c_pct; c_open] /\\ (forall v l, read_text SrcStdin (show (DChr c_open)) false 1 1 <> inl (v, [], l))"),
]

def equivalent(a, b):
    """datum equality where a string (list-headed char list) is the list of its characters"""
    a, b = dump.strip_meta(a), dump.strip_meta(b)
    def norm(t):
        if t[0] == "cons":
            items = dump.list_items(t)
            if items is not None:
                items = [norm(x) for x in items]
                if items and items[0] == ("sym", "list") and all(x[0] == "chr" for x in items[1:]):
                    items = items[1:]
                return ("list", tuple(items))
            return ("cons", norm(t[1]), norm(t[2]))
        return t
    return norm(a) == norm(b)

def has_unreadable_char(tree):
    k = tree[0]
    if k == "chr": return tree[1] in gen_data.UNREADABLE
    if k == "cons": return has_unreadable_char(tree[1]) or has_unreadable_char(tree[2])
    if k == "list": return any(has_unreadable_char(x) for x in tree[1])
    return False

def is_stringish(tree):
    return tree[0] == "str" or (tree[0] == "list" and tree[1] and all(x[0] == "chr" for x in tree[1]))

def lone_unreadable(tree):
    """an unreadable character printed as a character literal (not inside a string)"""
    k = tree[0]
    if k == "chr": return tree[1] in gen_data.UNREADABLE
    if k == "str": return False
    if k == "list":
        if tree[1] and all(x[0] == "chr" for x in tree[1]): return False          # prints as a string
        if len(tree[1]) > 1 and tree[1][0] == ("sym", "list") and all(x[0] == "chr" for x in tree[1][1:]): return False
        return any(lone_unreadable(x) for x in tree[1])
    if k == "cons": return lone_unreadable(tree[1]) or lone_unreadable(tree[2])
    return False

def readable_data(t):
    """the domain of the property: no improper conses; symbols with readable names"""
    k = t[0]
    if k == "cons": return False
    if k == "list": return all(readable_data(x) for x in t[1])
    if k == "sym": return t[1] not in gen_data.COMPUTED_SYMS or True
    return True

def run(tier, seed):
    rep = Report(PID, tier, seed)
    standard_proof_phase(rep, TARGETS, IMPORTS, THEOREMS)
    rng = Rng(seed, 10)
    known = load_known()
    unreadable_entry = [k for k in known["open"] if k["property"] == PID and k.get("class") == "char-delimiter-unreadable"]
    data = []
    for v in [0, 1, -1, 2**63 - 1, -2**63, -2**63 + 1, 2**63 - 2, 10**18, -10**18, 42]:
        data.append(("num", v))
    for cp in [97, 65, 48, 126, 233, 955, 29483, 128512, 9, 10, 13, 32, 92, 37, 43, 45, 46, 35, 60] + sorted(gen_data.UNREADABLE)[:12]:
        data.append(("chr", cp))
    if tier == "thorough":
        for cp in range(0, 0x110000, 1):
            if not (0xD800 <= cp <= 0xDFFF) and (cp < 0x3000 or cp % 97 == 0):
                data.append(("chr", cp))
    for sname in ["a", "foo-bar", "x1", "+", "-", "<=", "*x*", "a%b", "é", "list", "quote", "nil", "a.b", "&", "1+"[::-1], "-a", "+-", "a1b2"]:
        data.append(("sym", sname))
    for st in ["", "a", "a b", 'q"q', "back\\slash", "\\", "\\\\", 'mix\\"', "new\nline", "tab\there", "(paren)", "semi;colon", "'quote'", ",comma,", "%pct", "é猫", "\\n", '"']:
        data.append(("str", st))
    # lists headed by the symbol list: exactly ONE such head in front of characters only is the string form
    L, C = ("sym", "list"), lambda ch: ("chr", ord(ch))
    for items in [[L], [L, L], [L, C("a")], [L, L, C("a")], [L, L, L, C("a"), C("b")], [L, ("num", 1)], [L, C("a"), ("num", 1)], [L, C("a"), L], [C("a"), L],
                  [L, ("list", (L, C("x")))], [("list", (L, L, C("x"))), L, L], [L, L, ("num", 0)]]:
        data.append(("list", tuple(items)))
    n = 300 if tier == "quick" else 8000
    for i in range(n):
        t = gen_data.gen_tree(rng, rng.range(0, 4))
        if readable_data(t):
            data.append(t)
    progs = []
    for t in data:
        e = gen_data.render(rng, t, rng.below(4))
        progs.append(f"((lambda (d) ((lambda (p) (list d p (read p 'stdin 1 1))) (print d))) {e})")
    sets = [ProgramSet("roundtrip", progs, shard_size=40, timeout=20.0)]
    run_sets(rep, sets)
    crashes_and_hangs(rep, sets)
    ps = sets[0]
    known_hits = 0
    for i, (t, r) in enumerate(zip(data, ps.parsed)):
        st, d = last_result(r)
        if st != "ok":
            if "special" not in r:
                rep.violation(f"print/read of a datum raised a signal: {progs[i][:160]}", {"program": progs[i], "observed": ps.answers[i][:300]})
            continue
        tree = result_tree(r)
        if tree is None:
            continue
        items = dump.list_items(tree)
        orig, printed, rr = items[0], dump.text_of(items[1]), items[2]
        status = dump.strip_meta(plist_get(rr, "status") or ("nil",))
        problem = None
        if status != ("sym", "ok"):
            problem = f"the printed text {printed!r} reads with status {status[1] if len(status) > 1 else status}"
        else:
            rest = dump.text_of(plist_get(rr, "rest"))
            res = plist_get(rr, "result")
            if rest != "":
                problem = f"the printed text {printed!r} leaves {rest!r} unread"
            elif not equivalent(res, orig):
                problem = f"the printed text {printed!r} reads back as a different datum"
        if problem is None:
            # printing the result again reproduces the text
            pass
        if problem:
            if lone_unreadable(t) and unreadable_entry:
                known_hits += 1
            else:
                rep.violation("round trip fails: " + problem, {"program": progs[i], "datum": repr(t)[:200], "printed": printed, "observed": ps.answers[i][:400]})
                if len(rep.violations) >= 5:
                    break
    if known_hits and unreadable_entry:
        rep.known_lines.append(f"KNOWN-FINDING: property={PID} {unreadable_entry[0]['what']} [{known_hits} data of this class in this run]")
    # print . read . print = print   (second printing reproduces the text), model and binary
    progs2 = [f"((lambda (d) (= (print (. (read (print d) 'stdin 1 1) 'result)) (print d))) {gen_data.render(rng, t, 2)})" for t in data if not lone_unreadable(t)][: (150 if tier == "quick" else 3000)]
    s2 = [ProgramSet("reprint", progs2, shard_size=40, timeout=20.0)]
    run_sets(rep, s2)
    for i, r in enumerate(s2[0].parsed):
        st, d = last_result(r)
        if st == "ok" and d != "S116":
            rep.violation("printing the datum read back does not reproduce the text: " + progs2[i][:200], {"program": progs2[i], "observed": s2[0].answers[i][:300]})
            break
    if not rep.violations:
        report_disagreements(rep, sets + s2, "printer / reader")
    rep.nontrivial = len(set(repr(t) for t in data if t[0] in ("list", "str")))
    rep.samples = progs[:2] + progs[-2:]
    kinds = {}
    for t in data: kinds[t[0]] = kinds.get(t[0], 0) + 1
    rep.coverage.update({"data_by_kind": kinds, "unreadable_character_cases": known_hits, "exhaustive": False})
    return rep.finish("make -C coq Properties/C10.vo && coqc <pinned statements>", TRUSTED_BASE_COMMON + ["axioms: none"],
                      "boundary integers, characters of every class (thorough: all scalar values below U+3000 and every 97th above), symbol names, strings over a delimiter-rich alphabet incl. quotes and backslashes, generated nested lists (strings, list-headed and all-character lists included); each datum is printed, read back and compared on the binary and in the model; non-trivial = a list or string")

def replay(path):
    return generic_replay(path)
