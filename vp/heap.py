"""G-heap: histories of heap operations over a table of live handles (DESIGN.md 5.0), the
runner on the real Memory (driver verb `heap`), address canonicalisation, property monitors
on the implementation's snapshots, and Coq terms for the comparison with Heap/HeapModel.v."""
from .common import *

NAMES = ["a", "b", "foo", "x1", "&", "list"]

class Obj:
    __slots__ = ("kind", "kids")
    def __init__(self, kind, kids=()):
        self.kind, self.kids = kind, list(kids)

class HeapGen:
    """generates only applicable operations by tracking, statically, what every handle designates"""
    def __init__(self, rng, nops, collect_every=(10, 40), start_collect=True, burst=False):
        self.r = rng
        self.handles = []      # index -> Obj | None (nil) ; dead handles are marked in self.dead
        self.dead = set()
        self.ops = []          # (driver text, coq term)
        self.defs = {}         # (module, name) -> obj
        self.mods = ["default"]
        self.cur = "default"
        self.next_collect = rng.range(*collect_every)
        self.collect_every = collect_every
        self.burst = burst
        if start_collect:
            self.emit("collect", "HCollect")
        while len(self.ops) < nops:
            self.one()

    def emit(self, text, coq):
        self.ops.append((text, coq))

    def live(self, pred=lambda o: True):
        return [i for i, o in enumerate(self.handles) if i not in self.dead and pred(o)]

    def pick(self, pred=lambda o: True, allow_nil=True):
        """index of a live handle (biased to recent ones), or None for nil"""
        c = self.live(pred)
        if not c or (allow_nil and self.r.chance(1, 8)):
            return None
        k = self.r.below(len(c))
        if self.r.chance(2, 3):
            k = len(c) - 1 - self.r.below(min(len(c), 5))
        return c[k]

    def h(self, i):
        return "n" if i is None else str(i)

    def ch(self, i):
        return "None" if i is None else f"(Some {i}%nat)"

    def obj(self, i):
        return None if i is None else self.handles[i]

    def maybe_drop(self, used):
        for i in set(x for x in used if x is not None):
            if i not in self.dead and self.r.chance(1, 2):
                self.dead.add(i)
                self.emit(f"drop {i}", f"HDrop {i}%nat")

    def new_handle(self, o):
        self.handles.append(o)
        return len(self.handles) - 1

    def one(self):
        r = self.r
        self.next_collect -= 1
        if self.next_collect <= 0:
            self.emit("collect", "HCollect")
            self.next_collect = r.range(*self.collect_every)
            return
        k = r.weighted([("num", 6), ("chr", 2), ("cons", 14), ("sym", 8), ("gensym", 3), ("trap", 4), ("meta", 5), ("fun", 6), ("nat", 1),
                        ("clone", 4), ("drop", 8), ("car", 5), ("cdr", 5), ("unmeta", 2), ("parts", 3),
                        ("define", 5), ("undefine", 3), ("defmodule", 1), ("setmodule", 1)])
        if self.burst and k in ("num", "cons", "sym", "trap", "fun", "meta", "gensym") and r.chance(1, 3):
            self.emit("collect", "HCollect")
        if k == "num":
            v = r.range(-5, 99)
            self.emit(f"num {v}", f"HNum {coq_text(str(v))}"); self.new_handle(Obj("num"))
        elif k == "chr":
            v = r.choice([97, 98, 10, 955])
            self.emit(f"chr {v}", f"HChr {coq_text(str(v))}"); self.new_handle(Obj("chr"))
        elif k in ("cons", "trap"):
            a, d = self.pick(), self.pick()
            self.emit(f"{k} {self.h(a)} {self.h(d)}", f"{'HCons' if k == 'cons' else 'HTrap'} {self.ch(a)} {self.ch(d)}")
            self.new_handle(Obj(k, [self.obj(a), self.obj(d)]))
            self.maybe_drop([a, d])
        elif k == "sym":
            n = r.choice(NAMES)
            self.emit(f"sym {enc(n)}", f"HSym {coq_text(n)}"); self.new_handle(Obj("sym"))
        elif k == "gensym":
            self.emit("gensym", "HGensym"); self.new_handle(Obj("usym"))
        elif k == "meta":
            x = self.pick(lambda o: o is None or o.kind != "meta")
            nm = r.choice(["m", "name", ""])
            line, col = r.range(1, 9), r.range(1, 30)
            pl = (enc(nm) if nm else "") + f"|s:{line}:{col}"
            self.emit(f"meta {self.h(x)} {enc(nm)} {line} {col}", f"HMeta {self.ch(x)} {coq_text(pl)}")
            self.new_handle(Obj("meta", [self.obj(x)]))
            self.maybe_drop([x])
        elif k == "fun":
            body, env = self.pick(), self.pick()
            syms = self.live(lambda o: o is not None and (o.kind in ("sym", "usym") or (o.kind == "meta" and o.kids[0] is not None and o.kids[0].kind in ("sym", "usym"))))
            params = [r.choice(syms) for _ in range(r.below(4))] if syms else []
            kind, rest, module = r.choice(["l", "m"]), r.below(2), r.choice(["default", "mod"])
            pl = f"{'macro' if kind == 'm' else 'lambda'}|{rest}|{enc(module).replace('-', '')}"
            self.emit(f"fun {kind} {rest} {self.h(body)} {self.h(env)} {enc(module)} {','.join(map(str, params)) if params else '-'}",
                      f"HFun {coq_text(pl)} {self.ch(body)} {self.ch(env)} [{'; '.join(f'{p}%nat' for p in params)}]")
            self.new_handle(Obj("fun", [self.obj(body), self.obj(env)] + [self.obj(p) for p in params]))
            self.maybe_drop([body, env] + params)
        elif k == "nat":
            n = r.below(3)
            self.emit(f"nat l {n}", f"HNat {coq_text('lambda|' + str(n))}"); self.new_handle(Obj("nat"))
        elif k == "clone":
            i = self.pick(allow_nil=False)
            if i is None: return
            self.emit(f"clone {i}", f"HClone {i}%nat"); self.new_handle(self.handles[i])
        elif k == "drop":
            i = self.pick(allow_nil=False)
            if i is None: return
            self.dead.add(i); self.emit(f"drop {i}", f"HDrop {i}%nat")
        elif k in ("car", "cdr"):
            i = self.pick(lambda o: o is not None and o.kind == "cons", allow_nil=False)
            if i is None: return
            self.emit(f"{k} {i}", f"{'HCar' if k == 'car' else 'HCdr'} {i}%nat")
            self.new_handle(self.handles[i].kids[0 if k == "car" else 1])
        elif k == "unmeta":
            i = self.pick(lambda o: o is not None, allow_nil=False)
            if i is None: return
            o = self.handles[i]
            self.emit(f"unmeta {i}", f"HUnmeta {i}%nat")
            self.new_handle(o.kids[0] if o.kind == "meta" else o)
        elif k == "parts":
            i = self.pick(lambda o: o is not None and o.kind in ("fun", "trap"), allow_nil=False)
            if i is None: return
            self.emit(f"parts {i}", f"HParts {i}%nat")
            for kid in self.handles[i].kids:
                self.new_handle(kid)
        elif k == "define":
            i = self.pick()
            n = r.choice(["g1", "g2", "g3"])
            self.emit(f"define {enc(n)} {self.h(i)}", f"HDefine {coq_text(n)} {self.ch(i)}")
        elif k == "undefine":
            n = r.choice(["g1", "g2", "g3"])
            self.emit(f"undefine {enc(n)}", f"HUndefine {coq_text(n)}")
        elif k == "defmodule":
            n = r.choice(["mod", "other"])
            if n not in self.mods: self.mods.append(n)
            self.cur = n
            self.emit(f"defmodule {enc(n)}", f"HDefmodule {coq_text(n)}")
        elif k == "setmodule":
            n = r.choice(self.mods)
            self.cur = n
            self.emit(f"setmodule {enc(n)}", f"HSetmodule {coq_text(n)}")

KINDS = {"num": "KNum", "chr": "KChr", "cons": "KCons", "sym": "KSym", "usym": "KUSym", "fun": "KFun", "nat": "KNat", "trap": "KTrap", "meta": "KMeta"}

def parse_snapshot(text):
    """'snap len ff [cells] [free] [syms] [mods] cur' -> dict with raw addresses"""
    assert text.startswith("snap "), text[:60]
    head, rest = text[5:].split(" [", 1)
    ln, ff = map(int, head.split(" "))
    parts = ("[" + rest).split("] [")
    cells_s, free_s, syms_s = parts[0][1:], parts[1], parts[2]
    mods_s, cur = parts[3].rsplit("] ", 1)
    cells = []
    if cells_s:
        for c in cells_s.split("/"):
            a, rc, kind, payload, kids = c.split(",")
            cells.append({"addr": int(a, 16), "rc": int(rc), "kind": kind, "payload": "" if payload == "-" else payload,
                          "kids": [int(k, 16) for k in kids.split("+")] if kids else []})
    free = []
    if free_s:
        for c in free_s.split("/"):
            a, rc = c.split(",")
            free.append((int(a, 16), int(rc)))
    syms = []
    if syms_s:
        for e in syms_s.split("/"):
            n, a = e.split("=")
            syms.append((dec(n), int(a, 16)))
    mods = {}
    if mods_s:
        for m in mods_s.split("/"):
            n, defs, exports = m.split(":")
            mods[dec(n)] = [(dec(d.split("=")[0]), int(d.split("=")[1], 16)) for d in defs.split("+")] if defs else []
    return {"len": ln, "ff": ff, "cells": cells, "free": free, "syms": syms, "mods": mods, "cur": dec(cur)}

class Canon:
    """rust addresses -> the model's numbering (order of first appearance in vector order;
    boxes that left the vector are forgotten: the allocator may reuse their address)"""
    def __init__(self):
        self.map = {0: 0}
        self.next = 1
    def snapshot(self, sn):
        present = [c["addr"] for c in sn["cells"]] + [a for a, _ in sn["free"]]
        ps = set(present)
        for a in list(self.map):
            if a != 0 and a not in ps:
                del self.map[a]
        for a in present:
            if a not in self.map:
                self.map[a] = self.next
                self.next += 1
    def __call__(self, a):
        return self.map.get(a, 999999999)

def snapshot_term(sn, canon):
    canon.snapshot(sn)
    cs = []
    for c in sn["cells"]:
        kids = c["kids"]
        if c["kind"] in ("sym", "usym"):
            kids = []                      # own_address is not an edge (checked separately by the monitor)
        pl = dec(c["payload"]) if c["kind"] == "sym" else c["payload"]
        cs.append(f"({canon(c['addr'])}, {c['rc']}%nat, {KINDS[c['kind']]}, {coq_text(pl)}, [{'; '.join(str(canon(k)) for k in kids)}])")
    fr = "; ".join(f"({canon(a)}, {rc}%nat)" for a, rc in sn["free"])
    sy = "; ".join(f"({coq_text(n)}, {canon(a)})" for n, a in sn["syms"])
    return f"(Snap {sn['len']} {sn['ff']} [{'; '.join(cs)}] [{fr}] [{sy}])"

# ---------------------------------------------------------------------------
# property monitors on the implementation's own snapshots
# ---------------------------------------------------------------------------
def reachable(sn):
    index = {c["addr"]: c for c in sn["cells"]}
    roots = [c["addr"] for c in sn["cells"] if c["rc"] > 0]
    seen, stack = set(), list(roots)
    dangling = None
    while stack:
        a = stack.pop()
        if a == 0 or a in seen:
            continue
        if a not in index:
            dangling = a
            continue
        seen.add(a)
        c = index[a]
        if c["kind"] not in ("sym", "usym"):
            stack.extend(c["kids"])
    return seen, dangling

def content(c):
    return (c["kind"], c["payload"], tuple(c["kids"]))

def monitor_history(ops, snaps):
    """returns a list of (property, op index, description) found on the implementation's snapshots alone"""
    found = []
    prev = None
    prev_reach = set()
    for i, (op, sn) in enumerate(zip(ops, snaps)):
        index = {c["addr"]: c for c in sn["cells"]}
        reach, dangling = reachable(sn)
        if dangling is not None:
            found.append(("C01", i, f"after `{op}`: a reachable value refers to {dangling:#x}, which is not a used cell (reclaimed / released storage)"))
        for c in sn["cells"]:
            if c["kind"] in ("sym", "usym") and c["kids"] != [c["addr"]]:
                found.append(("C04", i, f"after `{op}`: symbol cell {c['addr']:#x} has own_address {c['kids']}"))
        for a, rc in sn["free"]:
            if rc != 0:
                found.append(("C01", i, f"after `{op}`: free cell {a:#x} has handle count {rc}"))
        if prev is not None:
            pindex = {c["addr"]: c for c in prev["cells"]}
            for a in reach & prev_reach:
                if content(index[a]) != content(pindex[a]):
                    found.append(("C01", i, f"after `{op}`: reachable cell {a:#x} changed from {content(pindex[a])} to {content(index[a])}"))
                    break
            lost = [a for a in prev_reach if a not in index and a in reach_after_roots(prev, sn)]
        # symbol table invariant (C04)
        names = {}
        for n, a in sn["syms"]:
            c = index.get(a)
            if c is None or c["kind"] != "sym" or dec(c["payload"]) != n:
                found.append(("C04", i, f"after `{op}`: symbol table entry {n!r} designates {c and content(c)} (a free or foreign cell)"))
            names[n] = a
        for c in sn["cells"]:
            if c["kind"] == "sym" and c["addr"] in reach and names.get(dec(c["payload"])) != c["addr"]:
                found.append(("C04", i, f"after `{op}`: live named symbol {dec(c['payload'])!r} at {c['addr']:#x} is not the symbol table's entry for its name"))
        # exactness right after an explicit collection (C03)
        if op == "collect":
            if set(index) != reach:
                found.append(("C03", i, f"after collect: {len(index)} cells in use but {len(reach)} reachable"))
            u = sn["ff"]
            if sn["len"] - u > max((u * 3) // 4, u // 10 + 1):
                found.append(("C03", i, f"after collect: {sn['len'] - u} free cells for {u} used (surplus not released)"))
        prev, prev_reach = sn, reach
        if len(found) > 5:
            break
    return found

def reach_after_roots(prev, sn):
    return set()

def run_histories(histories, timeout=120.0):
    """histories: list of HeapGen; returns per history (ops texts, parsed snapshots, raw answer, monitor flag)"""
    lines = []
    for g in histories:
        parts = ["monitor", "snap"]
        for text, _ in g.ops:
            parts.append(text); parts.append("snap")
        lines.append("heap " + ";".join(parts))
    answers = run_driver_cases(lines, timeout=timeout)
    out = []
    for g, a in zip(histories, answers):
        if a.startswith("panic") or a.startswith("crash") or a == "timeout":
            out.append({"special": a}); continue
        body, tail = a.rsplit(" | mon ", 1)
        segs = body.split(" ; ")
        snaps = [parse_snapshot(s) for s in segs[3::2]]
        res = segs[2::2]
        out.append({"ops": [t for t, _ in g.ops], "results": res, "snaps": snaps, "initial": parse_snapshot(segs[1]), "monitor": tail.split(" ")[0], "colls": int(tail.split("colls ")[1])})
    return out

def history_term(g, run):
    canon = Canon()
    canon.snapshot(run["initial"])
    items = []
    for (text, coq), sn in zip(g.ops, run["snaps"]):
        items.append(f"({coq}, {snapshot_term(sn, canon)})")
    return "[" + ";\n ".join(items) + "]"

HEAP_PREAMBLE = """From PL Require Import Heap.Snapshot.
Local Open Scope N_scope.
Definition chk (ops : list (hop * snapshot)) : bool := match run_history tree_policy tree_init ops 0 with None => true | Some _ => false end.
"""

def first_divergence(g, run):
    src = HEAP_PREAMBLE + f"Eval vm_compute in (run_history tree_policy tree_init {history_term(g, run)} 0).\n"
    out = coq_eval("heap_div", src, timeout=300)
    import re
    m = re.search(r"Some\s+(\d+)", out)
    return int(m.group(1)) if m else None
