import sys, os, importlib, argparse, traceback, json, time
from . import common

def main():
    ap = argparse.ArgumentParser()
    ap.add_argument("property")
    ap.add_argument("--tier", default=os.environ.get("VERIF_TIER", "quick"))
    ap.add_argument("--replay", default=None)
    a = ap.parse_args()
    pid = a.property.upper()
    tier = a.tier if a.tier in ("quick", "thorough") else "quick"
    seed = int(os.environ.get("VERIF_SEED", "20260930"))
    try:
        mod = importlib.import_module("vp.props." + pid.lower())
    except ModuleNotFoundError:
        print(f"ERROR: no check for {pid}")
        return 2
    try:
        if a.replay:
            return mod.replay(a.replay)
        return mod.run(tier, seed)
    except common.InfraError as e:
        print("ERROR: " + str(e)[:3000])
        # evidence without `violations`: an infrastructure error is neither a pass nor a violation
        os.makedirs(os.path.join(common.VERIF, "evidence"), exist_ok=True)
        with open(os.path.join(common.VERIF, "evidence", f"{pid}.json"), "w") as f:
            json.dump({"property_id": pid, "tier": tier, "seed": seed, "level": "other",
                       "coverage": {"explanation": "infrastructure error, nothing was decided: " + str(e)[:500]}, "wall_s": 0.0}, f, indent=1)
        return 2

if __name__ == "__main__":
    sys.exit(main())
