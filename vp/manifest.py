"""regenerate MANIFEST.json from the per-property modules:  python3 -m vp.manifest"""
import json, os, importlib
from .common import VERIF

ALL = [f"C{i:02d}" for i in range(1, 21)]

def main():
    checks, na = [], []
    for pid in ALL:
        try:
            mod = importlib.import_module("vp.props." + pid.lower())
            m = mod.MANIFEST
        except (ModuleNotFoundError, AttributeError):
            na.append({"property_id": pid, "reason": "check not built yet (work in progress; DESIGN.md section 5 has the plan for this property)"})
            continue
        checks.append({
            "property_id": pid,
            "quick_cmd": f"./check {pid} --tier quick",
            "thorough_cmd": f"./check {pid} --tier thorough",
            "evidence_file": f"/verif/evidence/{pid}.json",
            "replay_cmd_template": f"./check {pid} --replay {{path}}",
            "engine": "coq-model+correspondence",
            "level_claimed": {"category": "proof", "text": m["text"], "design_ref": m.get("design_ref", "DESIGN.md section 5 " + pid)},
            "level_note": m["note"],
            "technique": m["technique"],
        })
    man = {
        "version": 1,
        "setup_cmd": "./setup.sh",
        "hooks": {
            "guard": "picilisp_verif",
            "enable": "RUSTFLAGS=\"--cfg picilisp_verif\" CARGO_TARGET_DIR=/verif/.build/target-verif cargo build --offline [--release]  (run by every check from /repo's working tree)",
            "baseline_off_cmd": "cd /repo && cargo test --workspace --no-fail-fast --offline",
            "source_commits": ["8bf9b90", "acd2e0e", "c4b638a", "36f6fe5", "b593ac5"],
            "add_only": True,
        },
        "engines": [{"name": "coq-model+correspondence", "path": "/verif/coq, /verif/vp, /verif/gen",
                     "serves_properties": [c["property_id"] for c in checks],
                     "kind_free_text": "machine-checked proofs in Coq 8.16 over an executable Gallina model; parts of the model are regenerated from the source by gen/gen.py on every run, the hand-written parts are tied by a correspondence check that evaluates the model inside Coq (vm_compute) and the implementation (cfg driver) on the same generated cases"}],
        "checks": checks,
        "not_applicable": na,
        "notes": "See DESIGN.md. known_findings.json lists genuine defects (open: reported as KNOWN-FINDING; fixed: repaired by a fix: commit in /repo).",
    }
    with open(os.path.join(VERIF, "MANIFEST.json"), "w") as f:
        json.dump(man, f, indent=1)
    print(f"{len(checks)} checks, {len(na)} not_applicable")

if __name__ == "__main__":
    main()
