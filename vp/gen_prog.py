"""G-prog: a loosely typed generator of picilisp programs (see DESIGN.md 5.0).

Every random choice comes from the Rng passed in.  A program is a sequence of top-level
forms (a prologue of global definitions followed by one or more expressions).  `features`
selects the constructs; `illtyped` is the budget of deliberately ill-typed / ill-aritied
positions."""

VARS = ["x", "y", "z", "f", "g"]
GLOBAL_FUNS = ["gf1", "gf2", "gf3"]
GLOBAL_VALS = ["gv1", "gv2"]

class ProgGen:
    def __init__(self, rng, features, max_nodes=40, illtyped=0):
        self.r = rng
        self.f = set(features)
        self.budget = max_nodes
        self.ill = illtyped
        self.globals_fun = []   # (name, arity, rest?)
        self.globals_val = []
        self.stats = {}

    def note(self, k):
        self.stats[k] = self.stats.get(k, 0) + 1

    def spend(self):
        self.budget -= 1
        return self.budget > 0

    # ---- leaves ----
    def num(self):
        r = self.r
        return str(r.choice([0, 1, 2, 3, 5, 7, 10, -1, -4, 100]) if r.chance(4, 5) else r.choice([9223372036854775807, -9223372036854775808, 4611686018427387904]))

    def literal(self, kind):
        r = self.r
        self.note("literal")
        if kind == "num":
            return self.num()
        if kind == "list":
            k = r.below(5)
            if k == 0: return "()"
            if k == 1: return "'(" + " ".join(self.num() for _ in range(r.range(1, 4))) + ")"
            if k == 2: return "(list " + " ".join(self.num() for _ in range(r.range(1, 3))) + ")"
            if k == 3: return "'(a b c)"
            return '"' + r.choice(["", "a", "ab", "hello"]) + '"'
        if kind == "bool":
            return r.choice(["t", "nil", "()", "1", "'yes"]) if "prelude" in self.f else r.choice(["()", "1", "'yes"])
        # any
        k = r.below(7)
        if k == 0: return self.num()
        if k == 1: return "'" + r.choice(["a", "b", "sym", "kind"])
        if k == 2: return r.choice(["%a", "%z", "%\\n"])
        if k == 3: return '"' + r.choice(["", "s", "txt"]) + '"'
        if k == 4: return "()"
        if k == 5: return "'(1 (2 b) \"s\")"
        return self.num()

    def var(self, scope, kind):
        """a variable reference; scope = list of (name, kind)"""
        cands = [n for n, k in scope if k == kind or kind == "any" or k == "any"]
        if cands and self.r.chance(4, 5):
            self.note("var")
            return self.r.choice(cands)
        return None

    # ---- expressions ----
    def expr(self, kind, scope, depth):
        r = self.r
        if depth <= 0 or not self.spend():
            v = self.var(scope, kind)
            return v if v and r.chance(2, 3) else self.literal(kind)
        if self.ill > 0 and r.chance(1, 12):
            self.ill -= 1
            self.note("illtyped")
            return self.illtyped(scope, depth)
        choices = [("leaf", 3), ("if", 3), ("call_lambda", 3), ("prim", 5)]
        if self.globals_fun: choices.append(("call_global", 3))
        if "let" in self.f: choices.append(("let", 3))
        if "hof" in self.f and kind in ("list", "num", "any"): choices.append(("hof", 2))
        if "trap" in self.f: choices.append(("trap", 2))
        if "signal" in self.f: choices.append(("signal", 1))
        if "macros" in self.f: choices.append(("macro", 3))
        if "inline_macro" in self.f: choices.append(("inline_macro", 1))
        if "effects" in self.f: choices.append(("effect", 2))
        if "closure" in self.f: choices.append(("closure_call", 2))
        if "rest" in self.f: choices.append(("rest_call", 1))
        if "eval" in self.f: choices.append(("eval", 1))
        c = r.weighted(choices)
        self.note(c)
        if c == "leaf":
            v = self.var(scope, kind)
            return v if v else self.literal(kind)
        if c == "if":
            return f"(if {self.expr('bool', scope, depth - 1)} {self.expr(kind, scope, depth - 1)} {self.expr(kind, scope, depth - 1)})"
        if c == "call_lambda":
            n = r.range(1, 3)
            names = [r.choice(VARS) for _ in range(n)]     # reuse across nesting: shadowing, duplicates allowed
            kinds = [r.choice(["num", "list", "any"]) for _ in range(n)]
            inner = [(a, k) for a, k in zip(names, kinds)][::-1] + scope
            body = self.expr(kind, inner, depth - 1)
            args = " ".join(self.expr(k, scope, depth - 1) for k in kinds)
            return f"((lambda ({' '.join(names)}) {body}) {args})"
        if c == "rest_call":
            name, rest = r.choice(VARS), r.choice(VARS)
            nargs = r.range(1, 4)
            body = self.expr(kind, [(rest, "list"), (name, "any")] + scope, depth - 1)
            args = " ".join(self.expr("any", scope, depth - 1) for _ in range(nargs))
            return f"((lambda ({name} & {rest}) {body}) {args})"
        if c == "closure_call":
            # a closure that captures a variable, returned from a lambda and called later with a shadowing binding around
            v, w = r.choice(VARS), r.choice(VARS)
            cap = self.expr("num", scope, depth - 1)
            body = self.expr(kind if kind != "bool" else "any", [(w, "num"), (v, "num")] + scope, depth - 2)
            arg = self.expr("num", scope, depth - 1)
            return f"((lambda ({v}) ((lambda (k {v}) (k {arg})) (lambda ({w}) {body}) {self.num()})) {cap})"
        if c == "call_global":
            name, arity = r.choice(self.globals_fun)
            args = " ".join(self.expr("any" if i else "num", scope, depth - 1) for i in range(arity))
            return f"({name} {args})"
        if c == "let":
            n = r.range(1, 2)
            names = [r.choice(VARS) for _ in range(n)]
            kinds = [r.choice(["num", "list"]) for _ in range(n)]
            binds = " ".join(f"{a} {self.expr(k, scope, depth - 1)}" for a, k in zip(names, kinds))
            body = self.expr(kind, [(a, k) for a, k in zip(names, kinds)][::-1] + scope, depth - 1)
            return f"(let ({binds}) {body})"
        if c == "hof":
            v = r.choice(VARS)
            lst = self.expr("list", scope, depth - 1)
            if kind == "list" or (kind == "any" and r.chance(1, 2)):
                return f"(map (lambda ({v}) {self.expr('any', [(v, 'any')] + scope, depth - 2)}) {lst})"
            w = r.choice(VARS)
            return f"(foldl (lambda ({v} {w}) {self.expr('num', [(w, 'any'), (v, 'num')] + scope, depth - 2)}) {self.num()} {lst})"
        if c == "trap":
            body = self.expr(kind, scope, depth - 1)
            handler = self.expr(kind, [("*trapped-signal*", "any")] + scope, depth - 1) if r.chance(2, 3) else "*trapped-signal*"
            return f"(eval (trap {body} {handler}))"
        if c == "signal":
            return f"(signal {self.expr('any', scope, depth - 1)})"
        if c == "eval":
            return f"(eval (list 'add {self.expr('num', scope, depth - 1)} {self.num()}))" if kind in ("num", "any") else f"(eval '{self.literal(kind).lstrip(chr(39))})"
        if c == "macro":
            k = r.below(8)
            if k == 0: return f"(when {self.expr('bool', scope, depth - 1)} {self.expr(kind, scope, depth - 1)})"
            if k == 1: return f"(and {self.expr('bool', scope, depth - 1)} {self.expr(kind, scope, depth - 1)})"
            if k == 2: return f"(or {self.expr('bool', scope, depth - 1)} {self.expr(kind, scope, depth - 1)})"
            if k == 3: return f"(not {self.expr('bool', scope, depth - 1)})"
            if k == 4: return f"(block {self.expr('any', scope, depth - 1)} {self.expr(kind, scope, depth - 1)})"
            if k == 5: return f"(case ({self.expr('bool', scope, depth - 1)} {self.expr(kind, scope, depth - 1)}) ({self.expr('bool', scope, depth - 1)} {self.expr(kind, scope, depth - 1)}))"
            if k == 6:
                v = r.choice(VARS)
                return f"(try {self.expr(kind, scope, depth - 1)} (catch {r.choice(['wrong-argument-type', 'my-kind', 'unbound-symbol'])} (lambda ({v}) {self.expr(kind, [(v, 'any')] + scope, depth - 2)})) (catch-all (lambda ({v}) {self.expr(kind, [(v, 'any')] + scope, depth - 2)})))"
            return f"(throw 'kind '{r.choice(['my-kind', 'other'])} 'payload {self.expr('any', scope, depth - 1)})"
        if c == "inline_macro":
            k = r.below(4)
            if k == 0:
                return f"((macro (p q) (list 'if p q {self.literal(kind)})) {self.expr('bool', scope, depth - 1)} {self.expr(kind, scope, depth - 1)})"
            if k == 1:   # the expansion is itself a macro call: a second pass is needed
                return f"((macro (p q) (list 'when p q)) {self.literal('bool')} {self.literal(kind)})"
            if k == 2:
                return f"((macro (p q) (list 'and p (list 'or p q))) {self.literal('bool')} {self.literal(kind)})"
            return f"((macro (p) (list (list 'macro '(q) '(list 'when t q)) p)) {self.literal(kind)})"
        if c == "effect":
            tag = r.choice(["a", "b", "c", "d"])
            out = f"(output-file '*stdout* \"{tag}\")"
            if kind == "any":
                return out
            return f"((lambda (_ v) v) {out} {self.expr(kind, scope, depth - 1)})"
        # prim
        if kind == "num":
            op = r.choice(["add", "substract", "multiply", "divide"])
            return f"({op} {self.expr('num', scope, depth - 1)} {self.expr('num', scope, depth - 1)})"
        if kind == "bool":
            op = r.choice(["<", ">", "="])
            k = "num" if op != "=" else "any"
            return f"({op} {self.expr(k, scope, depth - 1)} {self.expr(k, scope, depth - 1)})"
        if kind == "list":
            k = r.below(4)
            if k == 0: return f"(cons {self.expr('any', scope, depth - 1)} {self.expr('list', scope, depth - 1)})"
            if k == 1: return f"(list {self.expr('any', scope, depth - 1)} {self.expr('any', scope, depth - 1)})"
            if k == 2: return f"(cdr {self.expr('list', scope, depth - 1)})"
            return f"(append {self.expr('list', scope, depth - 1)} {self.expr('list', scope, depth - 1)})"
        k = r.below(4)
        if k == 0: return f"(car {self.expr('list', scope, depth - 1)})"
        if k == 1: return f"(cons {self.expr('any', scope, depth - 1)} {self.expr('any', scope, depth - 1)})"
        if k == 2: return self.expr("num", scope, depth)
        return self.expr("list", scope, depth)

    def illtyped(self, scope, depth):
        r = self.r
        k = r.below(8)
        a = self.expr("any", scope, depth - 1)
        if k == 0: return f"(add {a} 'oops)"
        if k == 1: return f"(car {self.num()})"
        if k == 2: return f"(add {self.num()})"                       # too few
        if k == 3: return f"(cons {a} {a} {a})"                       # too many
        if k == 4: return f"((lambda (x y) x) {a})"                   # closure arity
        if k == 5: return "unbound-name"
        if k == 6: return f"({self.num()} {a})"                       # bad operator
        return f"((lambda (x) x) {a} {a})"

    # ---- programs ----
    def program(self, depth=4, nforms=1, prologue=True):
        forms = []
        if prologue and "globals" in self.f:
            for name in GLOBAL_VALS[: self.r.below(3)]:
                forms.append(f"(define '{name} {self.expr('num', [], 1)} \"\")")
                self.globals_val.append(name)
            for name in GLOBAL_FUNS[: self.r.below(4)]:
                arity = self.r.range(1, 2)
                params = VARS[:arity]
                body = self.expr("any", [(p, "num" if i == 0 else "any") for i, p in enumerate(params)] + [(g, "num") for g in self.globals_val], 2)
                forms.append(f"(define '{name} (lambda ({' '.join(params)}) {body}) \"\")")
                self.globals_fun.append((name, arity))
        scope = [(g, "num") for g in self.globals_val]
        for _ in range(nforms):
            forms.append(self.expr(self.r.choice(["num", "list", "any", "any"]), scope, depth))
        self.forms = forms
        return " ".join(forms)

CORE = {"globals", "closure", "rest"}
WITH_PRELUDE = CORE | {"prelude", "let", "hof", "macros", "trap", "signal", "effects", "eval", "inline_macro"}

def gen_program(rng, features, max_nodes=40, depth=4, nforms=1):
    w = rng.below(20)
    ill = 0 if w < 14 else 1 if w < 19 else 3
    g = ProgGen(rng, features, max_nodes, ill)
    return g.program(depth, nforms), g.stats

def gen_program_parts(rng, features, max_nodes=40, depth=4, illtyped=None):
    """(prologue forms, final expression, stats)"""
    w = rng.below(20)
    ill = illtyped if illtyped is not None else (0 if w < 14 else 1 if w < 19 else 3)
    g = ProgGen(rng, features, max_nodes, ill)
    g.program(depth, 1)
    return g.forms[:-1], g.forms[-1], g.stats
