"""Structural dumps of values (prefix token notation) -> Python trees -> Coq [val] terms.

token grammar (see /repo/src/verif/mod.rs Dumper):
  N | I<int> | C<cp> | S<cps> | U<addr> | K car cdr | M<name>|<k>:<line>:<col> value
  | F<l|m><r|n>|<module>|<nparams> params... body env | A<name> | T normal trap | ...
"""
from .common import dec

class Truncated(Exception):
    pass

def parse_tokens(tokens, pos=0):
    """returns (tree, next_pos); iterative (values can be long lists)"""
    # each frame: [kind, needed, collected, extra]
    stack = []
    result = None
    i = pos
    def arity_of(tok):
        c = tok[0]
        if c in "NICSUA":
            return 0
        if c == "K" or c == "T":
            return 2
        if c == "M":
            return 1
        if c == "F":
            return int(tok.split("|")[2]) + 2
        raise ValueError("bad token " + tok)
    while True:
        if i >= len(tokens):
            raise Truncated()
        tok = tokens[i]; i += 1
        if tok == "...":
            raise Truncated()
        n = arity_of(tok)
        if n == 0:
            node = leaf(tok)
            # reduce
            while True:
                if not stack:
                    return node, i
                fr = stack[-1]
                fr[2].append(node)
                if len(fr[2]) == fr[1]:
                    stack.pop()
                    node = build(fr[0], fr[2])
                else:
                    break
        else:
            stack.append([tok, n, []])

def leaf(tok):
    c = tok[0]
    if c == "N": return ("nil",)
    if c == "I": return ("num", int(tok[1:]))
    if c == "C": return ("chr", int(tok[1:]))
    if c == "S": return ("sym", dec(tok[1:]))
    if c == "U": return ("usym", tok[1:])
    if c == "A": return ("nat", dec(tok[1:]))
    raise ValueError(tok)

def build(tok, kids):
    c = tok[0]
    if c == "K": return ("cons", kids[0], kids[1])
    if c == "T": return ("trap", kids[0], kids[1])
    if c == "M":
        name, loc = tok[1:].split("|")
        k, line, col = loc.split(":")
        return ("meta", dec(name), k, int(line), int(col), kids[0])
    if c == "F":
        flags, module, n = tok[1:].split("|")
        n = int(n)
        return ("fun", flags[0] == "m", flags[1] == "r", dec(module), kids[:n], kids[n], kids[n + 1])
    raise ValueError(tok)

def parse_dump(text):
    tree, n = parse_tokens(text.split(" "))
    return tree

def coq_text(s):
    return "[" + ";".join(str(ord(c)) for c in s) + "]"

LOCK = {"n": "LNative", "p": "LPrelude", "s": "LStdin", "f": "(LFile [])"}

def to_coq(tree, uniq=None):
    """Coq term of type val; unique symbols are renamed by first occurrence (uniq dict shared across calls)"""
    if uniq is None:
        uniq = {}
    out = []
    # iterative post-order
    stack = [(tree, False)]
    res = []
    while stack:
        node, done = stack.pop()
        k = node[0]
        if k == "nil": res.append("VNil")
        elif k == "num": res.append(f"(VNum ({node[1]})%Z)")
        elif k == "chr": res.append(f"(VChar {node[1]})")
        elif k == "sym": res.append(f"(VSym (Named {coq_text(node[1])}))")
        elif k == "usym":
            if node[1] not in uniq:
                uniq[node[1]] = len(uniq)
            res.append(f"(VSym (Unique {uniq[node[1]]}))")
        elif k == "nat": res.append(f"(VNative {coq_text(node[1])})")
        elif not done:
            stack.append((node, True))
            if k == "cons" or k == "trap":
                stack.append((node[2], False)); stack.append((node[1], False))
            elif k == "meta":
                stack.append((node[5], False))
            elif k == "fun":
                stack.append((node[6], False)); stack.append((node[5], False))
                for p in reversed(node[4]):
                    stack.append((p, False))
        else:
            if k == "cons":
                d = res.pop(); a = res.pop(); res.append(f"(VCons {a} {d})")
            elif k == "trap":
                d = res.pop(); a = res.pop(); res.append(f"(VTrap {a} {d})")
            elif k == "meta":
                v = res.pop()
                res.append(f"(VMeta (Meta {coq_text(node[1])} {LOCK[node[2]]} {node[3]} {node[4]} []) {v})")
            elif k == "fun":
                env = res.pop(); body = res.pop()
                ps = [res.pop() for _ in node[4]][::-1]
                res.append(f"(VFun {'true' if node[1] else 'false'} {'true' if node[2] else 'false'} [{'; '.join(ps)}] {body} {env} {coq_text(node[3])})")
    return res[0]

def list_items(tree):
    """elements of a proper list value (looking through metadata), or None"""
    items = []
    t = tree
    while True:
        if t[0] == "meta":
            t = t[5]
        if t[0] == "nil":
            return items
        if t[0] != "cons":
            return None
        items.append(t[1]); t = t[2]

def strip_meta(tree):
    k = tree[0]
    if k == "meta": return strip_meta(tree[5])
    if k == "cons": return ("cons", strip_meta(tree[1]), strip_meta(tree[2]))
    if k == "trap": return ("trap", strip_meta(tree[1]), strip_meta(tree[2]))
    return tree

def text_of(tree):
    """a char list value -> str, or None"""
    items = list_items(tree)
    if items is None:
        return None
    out = []
    for x in items:
        if x[0] == "meta": x = x[5]
        if x[0] != "chr":
            return None
        out.append(chr(x[1]))
    return "".join(out)

import re as _re
_ADDR = _re.compile(r"C48 K C120((?: K C(?:4[89]|5[0-7]|9[7-9]|10[0-2]))+)")

def canon_addr_tokens(d):
    """addresses inside printed text (#<lambda-0x7f..>) -> 0x0, as the model prints them"""
    return _ADDR.sub("C48 K C120 K C48", d)

def split_run_answer(ans):
    """driver `run` answer -> dict(results=[(status, dumptext)], out=str, stats=dict, sent=str) or dict(special=...)"""
    if ans.startswith("panic") or ans.startswith("crash") or ans == "timeout" or ans.startswith("setup-failed") or ans.startswith("unknown"):
        return {"special": ans.split(" ")[0], "raw": ans}
    parts = ans.split(" | ")
    results = []
    if parts[0] != "none":
        for r in parts[0].split(" ; "):
            st, _, d = r.partition(" ")
            results.append((st, canon_addr_tokens(d)))
    out = dec(parts[1][4:]) if len(parts) > 1 else ""
    stats = {}
    if len(parts) > 2:
        w = parts[2].split(" ")
        for k in range(0, len(w) - 1, 2):
            stats[w[k]] = w[k + 1]
    sent = parts[3][5:] if len(parts) > 3 else "-"
    return {"results": results, "out": out, "stats": stats, "sent": sent}

def show(tree, depth=0):
    """readable rendering of a value tree (diagnostics and replay files only)"""
    if tree is None: return "?"
    if depth > 200: return "..."
    k = tree[0]
    if k == "meta": return show(tree[5], depth)
    if k == "nil": return "()"
    if k == "num": return str(tree[1])
    if k == "chr": return "%" + chr(tree[1])
    if k == "sym": return tree[1]
    if k == "usym": return "#<symbol>"
    if k == "nat": return "#<native " + tree[1] + ">"
    if k == "fun": return "#<macro>" if tree[1] else "#<lambda>"
    if k == "trap": return "#<trap " + show(tree[1], depth + 1) + " " + show(tree[2], depth + 1) + ">"
    s = text_of(tree)
    if s is not None: return '"' + s + '"'
    parts = []
    t = tree
    while True:
        if t[0] == "meta": t = t[5]
        if t[0] == "cons":
            parts.append(show(t[1], depth + 1)); t = t[2]
        elif t[0] == "nil":
            break
        else:
            parts.append("."); parts.append(show(t, depth + 1)); break
    return "(" + " ".join(parts) + ")"
