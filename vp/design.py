"""regenerates the generated blocks of DESIGN.md (between <!-- BEGIN GENERATED name --> / <!-- END GENERATED name -->)
from the property modules, known_findings.json and seeded/*/meta.json:   python3 -m vp.design"""
import json, os, re, importlib
from .common import VERIF

ALL = [f"C{i:02d}" for i in range(1, 21)]

def props():
    titles = {}
    for l in open(os.path.join(VERIF, "properties.jsonl")):
        d = json.loads(l)
        titles[d["id"]] = d["title"]
    return titles

def per_property():
    titles = props()
    known = json.load(open(os.path.join(VERIF, "known_findings.json")))
    out = []
    for pid in ALL:
        try:
            mod = importlib.import_module("vp.props." + pid.lower())
        except ModuleNotFoundError:
            out.append(f"### {pid} - {titles[pid]}\n\nNo check (see not_applicable in MANIFEST.json).\n")
            continue
        m = mod.MANIFEST
        out.append(f"### {pid} - {titles[pid]}\n")
        out.append(f"*Technique.* {m['technique']}.\n")
        out.append(f"*Claim.* {m['text']}\n")
        out.append(f"*Limits / trusted.* {m['note']}\n")
        ths = getattr(mod, "THEOREMS", [])
        if ths:
            out.append(f"*Pinned theorems* (`coq/Properties/{pid}.v`, statements re-checked from `vp/props/{pid.lower()}.py` on every run): " + ", ".join(f"`{n}`" for n, _ in ths) + ".\n")
        op = [k for k in known["open"] if k["property"] == pid]
        fx = [k for k in known["fixed"] if k["property"] == pid]
        if fx:
            out.append("*Defects found by this check and repaired* (`fix:` commits in /repo): " + "; ".join(f"`{k['commit']}` {k['what']}" for k in fx) + ".\n")
        if op:
            out.append("*Open findings* (printed as KNOWN-FINDING, each suppresses only its own class): " + "; ".join(f"**{k['class']}** - {k['what']} (not repaired: {k.get('why_not_repaired', '-')})" for k in op) + ".\n")
        sd = os.path.join(VERIF, "seeded", pid, "meta.json")
        if os.path.exists(sd):
            meta = json.load(open(sd))
            det = meta.get("detection", {})
            how = "; ".join(f"{c}: {'concrete failing input' if d.get('found_input', True) else 'broken obligation, no failing input found'}" for c, d in det.items()) or "not run yet"
            out.append(f"*Seeded change* `seeded/{pid}/`: caught by {', '.join(meta.get('caught_by') or ['-'])} ({how}).\n")
    return "\n".join(out)

def findings_table():
    known = json.load(open(os.path.join(VERIF, "known_findings.json")))
    rows = ["| property | commit | what failed |", "|---|---|---|"]
    for k in known["fixed"]:
        rows.append(f"| {k['property']} | `{k['commit']}` | {k['what'].replace('|', '/')} |")
    rows2 = ["| property | class | what fails | why not repaired |", "|---|---|---|---|"]
    for k in known["open"]:
        rows2.append(f"| {k['property']} | {k['class']} | {k['what'].replace('|', '/')} | {k.get('why_not_repaired', '').replace('|', '/')} |")
    return "**Repaired** (one `fix:` commit each; the check that found it passes on the repaired tree and reports the violation again if it returns)\n\n" + "\n".join(rows) + \
           "\n\n**Open** (KNOWN-FINDING lines; listed in `known_findings.json`, never written at run time)\n\n" + "\n".join(rows2) + "\n"

def seeded_table():
    rows = ["| seed | change (first lines of the author's notes) | needs to manifest | caught by | how |", "|---|---|---|---|---|"]
    for pid in ALL + [d for d in sorted(os.listdir(os.path.join(VERIF, "seeded"))) if "-" in d and os.path.isdir(os.path.join(VERIF, "seeded", d))]:
        sd = os.path.join(VERIF, "seeded", pid, "meta.json")
        if not os.path.exists(sd):
            continue
        m = json.load(open(sd))
        det = m.get("detection", {})
        how = "; ".join(f"{c}: {'failing input' if d.get('found_input', True) else 'no-failing-input-found'}" for c, d in det.items())
        one = lambda t: re.sub(r"\s+", " ", t)[:260].replace("|", "/")
        rows.append(f"| {pid} | {one(m.get('change', ''))} | {one(m.get('needs_to_manifest', ''))} | {', '.join(m.get('caught_by') or [])} | {how} |")
    return "\n".join(rows) + "\n"

BLOCKS = {"per_property": per_property, "findings": findings_table, "seeded": seeded_table}

def main():
    p = os.path.join(VERIF, "DESIGN.md")
    s = open(p).read()
    for name, fn in BLOCKS.items():
        a, b = f"<!-- BEGIN GENERATED {name} -->", f"<!-- END GENERATED {name} -->"
        if a in s and b in s:
            s = s[:s.index(a) + len(a)] + "\n" + fn() + s[s.index(b):]
    open(p, "w").write(s)
    print("DESIGN.md blocks regenerated")

if __name__ == "__main__":
    main()
