"""Generators of data (abstract trees) and of Lisp expressions that construct them.

abstract tree: ('num', z) | ('chr', cp) | ('sym', name) | ('nil',) | ('str', text)
             | ('cons', a, d) | ('list', [items])
"""
MIN, MAX = -2**63, 2**63 - 1
SYMS = ["a", "b", "foo", "x1", "list", "quote", "t", "nil", "lambda", "if", "-", "+", "a-b", "<=", "*x*", "é"]
COMPUTED_SYMS = {"default": "(get-current-module)", "number-type": "(type-of 1)", "nil-type": "(type-of ())", "ok": "(export ())"}
CHARS = [97, 98, 65, 48, 57, 32, 10, 9, 13, 92, 233, 29483, 955, 126, 45, 43, 37, 46, 42]
LETTERS = [97, 98, 99, 120, 122]
STRCHARS = [97, 98, 32, 34, 40, 41, 59, 39, 44, 10, 233, 29483, 37, 49]

def gen_atom(rng):
    k = rng.below(12)
    if k < 3:
        return ("num", rng.choice([0, 1, -1, 7, 42, MIN, MAX, MIN + 1, MAX - 1, 2**31, -2**31]) if rng.chance(1, 3) else rng.range(-50, 50))
    if k < 5:
        return ("chr", rng.choice(CHARS))
    if k < 8:
        return ("sym", rng.choice(SYMS + list(COMPUTED_SYMS)))
    if k < 9:
        return ("nil",)
    if k < 11:
        return ("str", "".join(chr(rng.choice(STRCHARS)) for _ in range(rng.below(5))))
    return ("num", rng.range(MIN, MAX))

def gen_tree(rng, depth):
    if depth <= 0 or rng.chance(2, 5):
        return gen_atom(rng)
    k = rng.below(10)
    if k < 5:
        return ("list", [gen_tree(rng, depth - 1) for _ in range(rng.below(5))])
    if k < 7:
        return ("cons", gen_tree(rng, depth - 1), gen_tree(rng, depth - 1))
    if k < 8:
        return ("list", [("chr", rng.choice(CHARS)) for _ in range(rng.range(1, 4))])   # looks like a string
    if k < 9:
        return ("list", [("sym", "list")] + [("chr", rng.choice(LETTERS)) for _ in range(rng.below(3))])  # list-headed
    return ("cons", gen_tree(rng, depth - 1), ("list", [gen_tree(rng, depth - 1) for _ in range(rng.below(3))]))

def mutate(rng, t):
    """a tree that differs from t in one place (usually)"""
    k = t[0]
    if k == "list" and t[1] and rng.chance(3, 4):
        items = list(t[1])
        i = rng.below(len(items))
        c = rng.below(4)
        if c == 0: items[i] = mutate(rng, items[i])
        elif c == 1: del items[i]
        elif c == 2: items.insert(i, gen_atom(rng))
        else: return ("cons", items[0], ("list", items[1:])) if rng.chance(1, 2) else ("list", items[::-1])
        return ("list", items)
    if k == "cons" and rng.chance(3, 4):
        return ("cons", mutate(rng, t[1]), t[2]) if rng.chance(1, 2) else ("cons", t[1], mutate(rng, t[2]))
    if k == "num": return ("num", t[1] + rng.choice([1, -1]) if MIN < t[1] < MAX else 0)
    if k == "chr": return ("chr", rng.choice([c for c in CHARS if c != t[1]]))
    if k == "sym": return ("sym", rng.choice([s for s in SYMS if s != t[1]]))
    if k == "str": return ("str", t[1] + "a") if rng.chance(1, 2) else ("list", [("chr", ord(c)) for c in t[1]])
    return gen_atom(rng)

CHAR_ESC = {10: "%\\n", 9: "%\\t", 13: "%\\r", 32: "%\\s", 92: "%\\\\"}

UNREADABLE = set(map(ord, "()\"';,")) | {11, 12, 133, 160, 5760, 8232, 8233, 8239, 8287, 12288} | set(range(8192, 8203))

def char_literal(cp):
    """an EXPRESSION evaluating to the character (a literal where the reader can read one)"""
    if cp in CHAR_ESC:
        return CHAR_ESC[cp]
    if cp in UNREADABLE:
        return "(car " + string_literal(chr(cp)) + ")"
    return "%" + chr(cp)

def string_literal(text):
    out = ['"']
    for c in text:
        if c == '"': out.append('\\"')
        elif c == "\\": out.append("\\\\")
        elif c == "\n": out.append("\\n")
        else: out.append(c)
    out.append('"')
    return "".join(out)

def quotable(t):
    """can be written as a datum under quote"""
    k = t[0]
    if k == "cons": return False
    if k == "list": return all(quotable(x) for x in t[1])
    if k == "chr": return t[1] not in UNREADABLE
    return True

def raw(t):
    """datum syntax (under quote)"""
    k = t[0]
    if k == "num": return str(t[1])
    if k == "chr": return char_literal(t[1])
    if k == "sym": return t[1]
    if k == "nil": return "()"
    if k == "str": return string_literal(t[1])
    if k == "list": return "(" + " ".join(raw(x) for x in t[1]) + ")"
    raise ValueError(k)

def render(rng, t, literal_bias=2):
    """a Lisp expression (natives only) evaluating to t; style chosen at random at each node"""
    k = t[0]
    lit = rng.below(3) < literal_bias
    if k == "num":
        return str(t[1]) if lit else f"(add {t[1]} 0)"
    if k == "chr":
        if not lit and t[1] in LETTERS:
            return f"(car (print '{chr(t[1])}))"
        return char_literal(t[1])
    if k == "sym":
        if t[1] in COMPUTED_SYMS and not lit:
            return COMPUTED_SYMS[t[1]]
        return "'" + t[1]
    if k == "nil":
        return "()" if lit else "(cdr (list 1))"
    if k == "str":
        if lit:
            return string_literal(t[1])
        return "(list 'list " + " ".join(char_literal(ord(c)) for c in t[1]) + ")"
    if k == "cons":
        return f"(cons {render(rng, t[1], literal_bias)} {render(rng, t[2], literal_bias)})"
    if k == "list":
        if lit and quotable(t) and rng.chance(1, 2):
            return "'" + raw(t)
        return "(list" + "".join(" " + render(rng, x, literal_bias) for x in t[1]) + ")"
    raise ValueError(k)
