#!/bin/bash
# Build the framework from files on disk only (offline): regenerate the generated model
# parts from /repo, compile the whole Coq development, build the cfg driver (release).
set -e
cd "$(dirname "$0")"
export CARGO_NET_OFFLINE=true
python3 gen/gen.py > .build_gen_status.json 2>&1 || true
mkdir -p .build evidence replays
mv -f .build_gen_status.json .build/gen_status.json
( cd coq && coq_makefile -f _CoqProject -o Makefile > /dev/null && timeout 3000 make -j16 -k > ../.build/coq_build.log 2>&1 || true )
( cd /repo && RUSTFLAGS="--cfg picilisp_verif" CARGO_TARGET_DIR=/verif/.build/target-verif timeout 3000 cargo build --offline --release > /verif/.build/cargo_release.log 2>&1 )
( cd /repo && RUSTFLAGS="--cfg picilisp_verif" CARGO_TARGET_DIR=/verif/.build/target-verif timeout 3000 cargo build --offline > /verif/.build/cargo_debug.log 2>&1 )
echo "setup done"
