#!/bin/bash
# usage: ./seedtest.sh <seed-id> <property> [<property>...]
# applies seeded/<seed-id>/patch.diff to /repo, runs the quick checks, and undoes the patch.
# The evidence files of the clean tree are put back afterwards (evidence must describe /repo itself).
cd "$(dirname "$0")"
id=$1; shift
git -C /repo apply /verif/seeded/$id/patch.diff || { echo "patch does not apply"; exit 2; }
mkdir -p .build/evidence_backup
for p in "$@"; do cp -f evidence/$p.json .build/evidence_backup/ 2>/dev/null; done
for p in "$@"; do
  echo "== seed $id vs check $p"
  ./check $p --tier quick 2>&1 | grep -E "VIOLATION|KNOWN|ERROR|obligations" | cut -c1-300
  cp replays/$p-*-0.json seeded/$id/caught_by_$p.json 2>/dev/null
done
git -C /repo checkout -- .
for p in "$@"; do cp -f .build/evidence_backup/$p.json evidence/ 2>/dev/null; rm -f replays/$p-*.json; done
python3 gen/gen.py > /dev/null
