#!/bin/bash
# runs every claimed check of one tier in turn and prints one summary line each:  ./runall.sh [quick|thorough] [ids...]
cd "$(dirname "$0")"
tier=${1:-quick}; shift
ids=${@:-C01 C02 C03 C04 C05 C06 C07 C08 C09 C10 C11 C12 C13 C14 C15 C16 C17 C18 C19 C20}
rc=0
for p in $ids; do
  s=$(date +%s)
  out=$(./check $p --tier $tier 2>&1); e=$?
  echo "$p exit=$e $(( $(date +%s) - s ))s :: $(echo "$out" | grep -c '^KNOWN-FINDING') known, $(echo "$out" | grep -c '^VIOLATION') violations :: $(echo "$out" | tail -1 | cut -c1-120)"
  [ $e -ne 0 ] && rc=1
done
exit $rc
